#!/usr/bin/env python3
"""Engine L translator: LLVM IR (rustc, textual) -> C for CBMC, with explicit unwinding.

Generic, knows nothing about micromap.  Usage as a library: T = Translator(ir_text); T.emit(entry).

unwinding model: global flag __unw.  A panic entry point sets it and returns; every call site
checks it: `invoke` branches to its landing pad, plain `call` returns from the frame.
"""
import re, sys

# ----------------------------------------------------------------------------- tokenizer
TOK = re.compile(r'''
    (?P<ws>\s+)
  | (?P<str>c"(?:[^"\\]|\\[0-9A-Fa-f]{2}|\\\\)*")
  | (?P<qname>[%@]"(?:[^"\\]|\\.)*")
  | (?P<name>[%@][-a-zA-Z$._0-9]+)
  | (?P<pstr>"(?:[^"\\]|\\.)*")
  | (?P<meta>![-a-zA-Z$._0-9]*(?:\([^)]*\))?)
  | (?P<attr>\#\d+)
  | (?P<num>-?\d+(?:\.\d+(?:e[+-]?\d+)?)?)
  | (?P<hex>0x[0-9A-Fa-f]+)
  | (?P<word>[a-zA-Z_][-a-zA-Z_0-9.]*)
  | (?P<dots>\.\.\.)
  | (?P<punct><\{|\}>|[\[\]\(\)\{\}<>,=*:])
''', re.X)


def tokenize(s):
    out = []
    i = 0
    while i < len(s):
        m = TOK.match(s, i)
        if not m:
            raise SyntaxError('cannot tokenize at: ' + s[i:i + 60])
        i = m.end()
        if m.lastgroup == 'ws':
            continue
        out.append((m.lastgroup, m.group()))
    return out


# ----------------------------------------------------------------------------- types
class Ty:
    pass


class IntTy(Ty):
    def __init__(s, bits): s.bits = bits
    def __repr__(s): return 'i%d' % s.bits


class PtrTy(Ty):
    def __repr__(s): return 'ptr'


class VoidTy(Ty):
    def __repr__(s): return 'void'


class ArrTy(Ty):
    def __init__(s, n, el): s.n, s.el = n, el
    def __repr__(s): return '[%d x %r]' % (s.n, s.el)


class StructTy(Ty):
    def __init__(s, fields, packed=False): s.fields, s.packed = fields, packed
    def __repr__(s): return ('<{%s}>' if s.packed else '{%s}') % ','.join(map(repr, s.fields))


class NamedTy(Ty):
    def __init__(s, name): s.name = name
    def __repr__(s): return s.name


class Module:
    def __init__(self):
        self.named = {}
        self.globals = {}   # name -> (ty, init tokens, align)
        self.funcs = []     # Function
        self.decls = {}     # name -> (retty, [paramtys], vararg)
        self.aliases = {}   # alias symbol -> aliasee symbol
        self.attr_groups = {}   # '#N' -> attribute text
        self.decl_attrs = {}    # declared symbol -> ['#N', ...]

    def resolve(self, t):
        while isinstance(t, NamedTy):
            t = self.named[t.name]
        return t

    def size_align(self, t):
        t = self.resolve(t)
        if isinstance(t, IntTy):
            b = max(1, (t.bits + 7) // 8)
            p = 1
            while p < b: p *= 2
            return p, min(p, 16)
        if isinstance(t, PtrTy):
            return 8, 8
        if isinstance(t, ArrTy):
            s, a = self.size_align(t.el)
            return s * t.n, a
        if isinstance(t, StructTy):
            off, al = 0, 1
            for f in t.fields:
                s, a = self.size_align(f)
                if t.packed: a = 1
                off = (off + a - 1) // a * a
                off += s
                al = max(al, a)
            off = (off + al - 1) // al * al
            return off, al
        raise NotImplementedError(repr(t))

    def field_off(self, t, idx):
        t = self.resolve(t)
        off = 0
        for i, f in enumerate(t.fields):
            s, a = self.size_align(f)
            if t.packed: a = 1
            off = (off + a - 1) // a * a
            if i == idx:
                return off, f
            off += s
        raise IndexError


class P:
    """token stream parser helpers"""
    def __init__(s, toks): s.t, s.i = toks, 0
    def peek(s, k=0): return s.t[s.i + k] if s.i + k < len(s.t) else (None, None)
    def next(s):
        x = s.t[s.i]; s.i += 1; return x
    def accept(s, v):
        if s.peek()[1] == v:
            s.i += 1; return True
        return False
    def expect(s, v):
        x = s.next()
        if x[1] != v: raise SyntaxError('expected %r got %r near %r' % (v, x, s.t[max(0, s.i - 6):s.i + 4]))
    def eof(s): return s.i >= len(s.t)

    def ty(s):
        k, v = s.next()
        if k == 'word' and re.fullmatch(r'i\d+', v): t = IntTy(int(v[1:]))
        elif v == 'ptr': t = PtrTy()
        elif v == 'void': t = VoidTy()
        elif v == '[':
            n = int(s.next()[1]); s.expect('x'); el = s.ty(); s.expect(']'); t = ArrTy(n, el)
        elif v == '{' or v == '<{':
            close = '}' if v == '{' else '}>'
            fs = []
            if not s.accept(close):
                while True:
                    fs.append(s.ty())
                    if s.accept(close): break
                    s.expect(',')
            t = StructTy(fs, v == '<{')
        elif k in ('name', 'qname') and v[0] == '%': t = NamedTy(v)
        elif v in ('float', 'double', 'half', 'metadata', 'token', 'label'):
            t = IntTy({'float': 32, 'double': 64, 'half': 16}.get(v, 64))
        else:
            raise SyntaxError('type? %r %r' % (k, v))
        # function pointer types etc. not expected with opaque pointers
        return t


PARAM_ATTRS = {'noalias', 'noundef', 'nonnull', 'readonly', 'writeonly', 'readnone', 'writable', 'nocapture', 'immarg',
               'zeroext', 'signext', 'inreg', 'returned', 'nofree', 'dead_on_unwind', 'nest', 'swiftself', 'dead_on_return'}
PARAM_ATTRS_ARG = {'align', 'dereferenceable', 'dereferenceable_or_null', 'sret', 'byval', 'captures', 'range', 'initializes',
                   'nofpclass', 'elementtype', 'inalloca', 'byref', 'preallocated'}


def skip_paren(p):
    p.expect('(')
    d = 1
    while d:
        v = p.next()[1]
        if v == '(': d += 1
        elif v == ')': d -= 1


def skip_param_attrs(p):
    """after a type: everything up to a value / ',' / ')' is attributes"""
    while True:
        k, v = p.peek()
        if k == 'word' and v not in ('true', 'false', 'null', 'undef', 'poison', 'zeroinitializer', 'getelementptr',
                                     'ptrtoint', 'inttoptr', 'bitcast', 'trunc', 'zext', 'c', 'x', 'to'):
            p.next()
            if p.peek()[1] == '(':
                skip_paren(p)
            elif p.peek()[0] == 'num' and v in ('align', 'dereferenceable', 'dereferenceable_or_null'):
                p.next()
        else:
            return



def unescape_c(s):
    # s is c"...": LLVM escapes \XX hex and \\
    body = s[2:-1]
    out = bytearray()
    i = 0
    while i < len(body):
        ch = body[i]
        if ch == '\\':
            if body[i + 1] == '\\':
                out.append(0x5c); i += 2
            else:
                out.append(int(body[i + 1:i + 3], 16)); i += 3
        else:
            out.append(ord(ch)); i += 1
    return bytes(out)


def const_items(M, ty, p, off, items):
    """parse one constant of type ty from token stream p; append ('b', off, bytes) / ('p', off, sym, addend)"""
    rt = M.resolve(ty)
    k, v = p.next()
    size, _ = M.size_align(rt)
    if v in ('zeroinitializer', 'undef', 'poison'):
        return
    if v == 'null':
        return
    if isinstance(rt, IntTy):
        if v == 'true': iv = 1
        elif v == 'false': iv = 0
        elif v == 'ptrtoint':
            skip_paren(p); return   # not modelled
        else: iv = int(v)
        items.append(('b', off, (iv & ((1 << (8 * size)) - 1)).to_bytes(size, 'little')))
        return
    if isinstance(rt, PtrTy):
        if k in ('name', 'qname') and v[0] == '@':
            items.append(('p', off, v, 0)); return
        if v == 'getelementptr':
            while p.peek()[1] in ('inbounds', 'nuw', 'nusw'): p.next()
            p.expect('(')
            while p.peek()[1] in ('inbounds', 'nuw', 'nusw'): p.next()
            bt = p.ty(); p.expect(','); p.ty(); base = p.next()[1]
            add = 0
            first = True
            cur = bt
            while p.accept(','):
                p.ty(); idx = int(p.next()[1])
                if first:
                    add += idx * M.size_align(cur)[0]; first = False
                else:
                    rc = M.resolve(cur)
                    if isinstance(rc, StructTy):
                        o, ft = M.field_off(rc, idx); add += o; cur = ft
                    else:
                        add += idx * M.size_align(rc.el)[0]; cur = rc.el
            p.expect(')')
            items.append(('p', off, base, add)); return
        if v in ('inttoptr', 'bitcast', 'addrspacecast'):
            skip_paren(p); return
        raise SyntaxError('const ptr? %r' % v)
    if isinstance(rt, ArrTy):
        if k == 'str':
            items.append(('b', off, unescape_c(v))); return
        if v == '[':
            esz = M.size_align(rt.el)[0]
            i = 0
            if not p.accept(']'):
                while True:
                    et = p.ty()
                    const_items(M, et, p, off + i * esz, items); i += 1
                    if p.accept(']'): break
                    p.expect(',')
            return
        raise SyntaxError('const array? %r' % v)
    if isinstance(rt, StructTy):
        close = '}' if v == '{' else '}>'
        if v not in ('{', '<{'): raise SyntaxError('const struct? %r' % v)
        i = 0
        if not p.accept(close):
            while True:
                ft = p.ty()
                o, _ = M.field_off(rt, i)
                const_items(M, ft, p, off + o, items); i += 1
                if p.accept(close): break
                p.expect(',')
        return
    raise SyntaxError('const of type %r' % rt)


class Function:
    def __init__(s, name, ret, params): s.name, s.ret, s.params, s.blocks, s.raw = name, ret, params, [], None

    def parse(s):
        if s.raw is not None:
            parse_body(s, s.raw)
            s.raw = None


class Block:
    def __init__(s, label): s.label, s.insts = label, []


# ----------------------------------------------------------------------------- module parse
def strip_comment(ln):
    inq = False
    i = 0
    while i < len(ln):
        c = ln[i]
        if inq:
            if c == '\\': i += 1
            elif c == '"': inq = False
        else:
            if c == '"': inq = True
            elif c == ';': return ln[:i]
        i += 1
    return ln


def join_lines(text):
    out = []
    for ln in text.split('\n'):
        if ln.lstrip().startswith(';'):
            continue
        out.append(strip_comment(ln).rstrip())
    return out


def parse_module(text):
    M = Module()
    lines = join_lines(text)
    i = 0
    while i < len(lines):
        ln = lines[i]
        if not ln.strip():
            i += 1; continue
        if ln.startswith('attributes '):
            m = re.match(r'attributes (#\d+) = \{(.*)\}', ln)
            if m:
                M.attr_groups[m.group(1)] = m.group(2)
            i += 1; continue
        if ln.startswith(('target ', 'source_filename', '!', 'module asm')):
            i += 1; continue
        if ln.startswith('declare'):
            toks_ = tokenize(ln)
            p = P(toks_); p.next()
            parse_header(M, p, decl=True)
            dn = [v for k, v in toks_ if k in ('name', 'qname') and v[0] == '@']
            if dn:
                M.decl_attrs[dn[0]] = [v for k, v in toks_ if k == 'attr']
            i += 1; continue
        if ln.startswith('define'):
            p = P(tokenize(ln.rstrip().rstrip('{')))
            p.next()
            fn = parse_header(M, p, decl=False)
            i += 1
            body = []
            while lines[i].rstrip() != '}':
                body.append(lines[i]); i += 1
            i += 1
            fn.raw = body
            M.funcs.append(fn)
            continue
        m = re.match(r'^(%(?:"(?:[^"\\]|\\.)*"|[-a-zA-Z$._0-9]+)) = type (.*)$', ln)
        if m:
            if m.group(2).strip() == 'opaque':
                M.named[m.group(1)] = StructTy([])
            else:
                M.named[m.group(1)] = P(tokenize(m.group(2))).ty()
            i += 1; continue
        if ln.startswith('@') and re.search(r'\balias\b', ln.split('=', 1)[1][:80]):
            toks = tokenize(ln)
            M.aliases[toks[0][1]] = toks[-1][1]
            i += 1; continue
        if ln.startswith('@'):
            toks = tokenize(ln)
            p = P(toks)
            name = p.next()[1]; p.expect('=')
            while p.peek()[1] not in ('constant', 'global'):
                v = p.next()[1]
                if v in ('thread_local',) and p.peek()[1] == '(':
                    skip_paren(p)
            p.next()
            ty = p.ty()
            M.globals[name] = (ty, toks[p.i:])
            i += 1; continue
        raise SyntaxError('top-level? ' + ln[:100])
    return M


LINKAGE = {'internal', 'private', 'hidden', 'protected', 'default', 'dso_local', 'dso_preemptable', 'external', 'weak',
           'linkonce_odr', 'weak_odr', 'linkonce', 'available_externally', 'unnamed_addr', 'local_unnamed_addr',
           'fastcc', 'ccc', 'coldcc', 'tailcc', 'preserve_mostcc', 'preserve_allcc', 'extern_weak', 'common', 'appending'}


def is_type_start(tok):
    k, v = tok
    if k == 'word':
        return bool(re.fullmatch(r'i\d+|ptr|void|float|double|half', v))
    if k in ('name', 'qname'):
        return v[0] == '%'
    return v in ('[', '{', '<{')


def skip_until_type(p):
    while not is_type_start(p.peek()):
        p.next()
        if p.peek()[1] == '(':
            skip_paren(p)


def parse_header(M, p, decl):
    skip_until_type(p)
    ret = p.ty()
    name = p.next()[1]
    p.expect('(')
    params = []
    vararg = False
    if not p.accept(')'):
        while True:
            if p.accept('...'):
                vararg = True
            else:
                t = p.ty()
                skip_param_attrs(p)
                pn = None
                if p.peek()[0] in ('name', 'qname'):
                    pn = p.next()[1]
                params.append((t, pn))
            if p.accept(')'): break
            p.expect(',')
    if decl:
        M.decls[name] = (ret, [t for t, _ in params], vararg)
        return None
    # unnamed params get %0, %1, ...
    n = 0
    ps = []
    for t, pn in params:
        if pn is None:
            pn = '%%%d' % n
            n += 1
        ps.append((t, pn))
    return Function(name, ret, ps)


def parse_body(fn, body):
    cur = None
    pending = None
    for ln in body:
        if not ln.strip():
            continue
        m = re.match(r'^((?:"(?:[^"\\]|\\.)*")|[-a-zA-Z$._0-9]+):\s*$', ln)
        if m and not ln.startswith(' '):
            cur = Block('%' + m.group(1))
            fn.blocks.append(cur)
            continue
        if cur is None:
            nun = sum(1 for _, pn in fn.params if re.fullmatch(r'%\d+', pn))
            cur = Block('%%%d' % nun); fn.blocks.append(cur)
        s = ln.strip()
        # continuation lines
        if pending is not None and (s.startswith(('to label', 'cleanup', 'catch', 'filter', ']')) or pending_open(pending)):
            pending += ' ' + MD_TAIL.sub('', s)
            cur.insts[-1] = pending
            continue
        s = MD_TAIL.sub('', s)
        cur.insts.append(s)
        pending = s


def pending_open(s):
    # switch tables: '[' opened but not closed
    return s.count('[') > s.count(']') and (' switch ' in ' ' + s)


# ----------------------------------------------------------------------------- C generation
class CGen:
    def __init__(self, M):
        self.M = M
        self.structs = {}   # repr -> cname
        self.struct_defs = []
        self.out = []
        self.gnames = {}

    LIBC = {'bcmp', 'memcmp', 'strlen', 'memchr', 'memrchr'}

    def cname(self, sym):
        s = sym[1:]
        if s.startswith('"'): s = s[1:-1]
        if s in self.LIBC:
            return 'vf_libc_' + s   # C models in the prelude; the names must not collide with <string.h>
        s = re.sub(r'[^A-Za-z0-9_]', lambda m: '_%02x' % ord(m.group()), s)
        return 'g_' + s if not re.match(r'[A-Za-z_]', s) else s

    def cty(self, t):
        t0 = t
        t = self.M.resolve(t)
        if isinstance(t, IntTy):
            if t.bits == 1: return 'unsigned char'
            if t.bits <= 8: return 'uint8_t'
            if t.bits <= 16: return 'uint16_t'
            if t.bits <= 32: return 'uint32_t'
            if t.bits <= 64: return 'uint64_t'
            return 'unsigned __int128'
        if isinstance(t, PtrTy): return 'unsigned char*'
        if isinstance(t, VoidTy): return 'void'
        if isinstance(t, (StructTy, ArrTy)):
            key = repr(t)
            if key not in self.structs:
                name = 'agg%d' % len(self.structs)
                self.structs[key] = name
                if isinstance(t, StructTy):
                    fs = ' '.join('%s f%d;' % (self.cty(f), i) for i, f in enumerate(t.fields))
                else:
                    fs = '%s e[%d];' % (self.cty(t.el), max(1, t.n))
                self.struct_defs.append('typedef struct { %s } %s;' % (fs or 'char _e;', name))
            return self.structs[key]
        raise NotImplementedError(repr(t0))


def sgn(ct):
    return {'uint8_t': 'int8_t', 'uint16_t': 'int16_t', 'uint32_t': 'int32_t', 'uint64_t': 'int64_t',
            'unsigned char': 'signed char', 'unsigned __int128': '__int128'}[ct]


MD_TAIL = re.compile(r'(,\s*![A-Za-z_.][-A-Za-z_.0-9]*\s+(![0-9]+|!\{[^}]*\}|![A-Za-z]+\([^)]*\)))+\s*$')


class FGen:
    def __init__(self, G, fn):
        self.G, self.M, self.fn = G, G.M, fn
        self.vars = {}      # ssa name -> (cname, Ty)
        self.labels = {}
        self.code = []
        self.allocas = []
        self.n = 0

    def var(self, name, ty=None):
        if name not in self.vars:
            self.vars[name] = ('v%d' % len(self.vars), ty)
        elif ty is not None and self.vars[name][1] is None:
            self.vars[name] = (self.vars[name][0], ty)
        return self.vars[name][0]

    def lab(self, name):
        if name not in self.labels:
            self.labels[name] = 'L%d' % len(self.labels)
        return self.labels[name]

    # ---- operands
    def operand(self, p, ty):
        """parse a value of known type ty; returns C expr"""
        k, v = p.next()
        rt = self.M.resolve(ty)
        if k in ('name', 'qname'):
            if v[0] == '%':
                return self.var(v)
            # global / function address
            if v not in self.M.globals:
                self.G.addr_taken.add(v)
            return '((unsigned char*)%s%s)' % ('&' if v not in self.M.globals else '', self.G.cname(v))
        if k == 'num':
            ct = self.G.cty(ty)
            iv = int(v)
            bits = rt.bits if isinstance(rt, IntTy) else 64
            if bits > 64:
                iv &= (1 << 128) - 1
                return '((((unsigned __int128)%dULL) << 64) | (unsigned __int128)%dULL)' % (iv >> 64, iv & ((1 << 64) - 1))
            if bits not in (8, 16, 32, 64) and bits > 1:
                iv &= (1 << bits) - 1
            if iv < 0:
                return '((%s)%dLL)' % (ct, iv)
            return '((%s)%dULL)' % (ct, iv)
        if v == 'true': return '1'
        if v == 'false': return '0'
        if v == 'null': return '((unsigned char*)0)'
        if v in ('undef', 'poison'):
            ct = self.G.cty(ty)
            if isinstance(rt, (StructTy, ArrTy)):
                return '__undef_%s()' % ct
            return '((%s)__undef_u64())' % ct if not isinstance(rt, PtrTy) else '((unsigned char*)__undef_u64())'
        if v == 'zeroinitializer':
            return '((%s){0})' % self.G.cty(ty)
        if v == 'getelementptr':
            return self.gep(p, paren=True)
        if v in ('{', '<{') and isinstance(rt, StructTy):
            close = '}' if v == '{' else '}>'
            parts = []
            for i, f in enumerate(rt.fields):
                ft = p.ty()
                parts.append(self.operand(p, ft))
                if i + 1 < len(rt.fields): p.expect(',')
            p.expect(close)
            return '((%s){%s})' % (self.G.cty(ty), ', '.join(parts))
        if v in ('ptrtoint', 'inttoptr', 'bitcast', 'trunc', 'zext'):
            p.expect('(')
            st = p.ty(); x = self.operand(p, st); p.expect('to'); dt = p.ty(); p.expect(')')
            return '((%s)%s)' % (self.G.cty(dt), x)
        raise SyntaxError('operand? %r %r in %s' % (k, v, self.fn.name))

    def tyop(self, p):
        t = p.ty()
        skip_param_attrs(p)
        return t, self.operand(p, t)

    def gep(self, p, paren=False):
        if paren:
            # constant expression: the flags come before the parenthesis (`getelementptr inbounds nuw (i8, ptr @g, i64 1)`)
            while p.peek()[1] in ('inbounds', 'nuw', 'nusw'): p.next()
            p.expect('(')
        while p.peek()[1] in ('inbounds', 'nuw', 'nusw', 'inrange'):
            p.next()
            if p.peek()[1] == '(' and not paren: skip_paren(p)
        base_t = p.ty(); p.expect(',')
        pt, base = self.tyop(p)
        expr = base
        cur = base_t
        first = True
        while p.accept(','):
            it, idx = self.tyop(p)
            sidx = '((int64_t)(%s)%s)' % (sgn(self.G.cty(it)), idx) if self.M.resolve(it).bits < 64 else '((int64_t)%s)' % idx
            if first:
                sz, _ = self.M.size_align(cur)
                expr = '(%s + %s*%d)' % (expr, sidx, sz)
                first = False
            else:
                rc = self.M.resolve(cur)
                if isinstance(rc, StructTy):
                    m = re.search(r'(\d+)ULL', idx)
                    off, ft = self.M.field_off(rc, int(m.group(1)))
                    expr = '(%s + %d)' % (expr, off)
                    cur = ft
                elif isinstance(rc, ArrTy):
                    sz, _ = self.M.size_align(rc.el)
                    expr = '(%s + %s*%d)' % (expr, sidx, sz)
                    cur = rc.el
                else:
                    raise NotImplementedError('gep into ' + repr(rc))
        if paren: p.expect(')')
        return expr

    # ---- emit helpers
    def emit(self, s): self.code.append('  ' + s)

    def const_set(self, name, depth=0):
        """set of integer constants an SSA value can take if it is a select/phi tree over constants, else None"""
        if re.fullmatch(r'-?\d+', name):
            return {int(name)}
        if depth > 6 or not name.startswith('%'):
            return None
        if not hasattr(self, 'defs'):
            self.defs = {}
            for b in self.fn.blocks:
                for ins in b.insts:
                    m = re.match(r'^(%(?:"[^"]*"|[-a-zA-Z$._0-9]+)) = (select|phi) ', ins)
                    if m:
                        self.defs[m.group(1)] = ins
        ins = self.defs.get(name)
        if ins is None:
            return None
        out = set()
        if ' = select ' in ins:
            m = re.match(r'^\S+ = select i1 \S+, i\d+ (\S+), i\d+ (\S+?)$', MD_TAIL.sub('', ins).strip())
            if not m:
                return None
            leaves = [m.group(1), m.group(2)]
        else:
            leaves = re.findall(r'\[ (\S+), %', ins)
        for l in leaves:
            c = self.const_set(l, depth + 1)
            if c is None:
                return None
            out |= c
        return out

    def ret_default(self):
        if isinstance(self.M.resolve(self.fn.ret), VoidTy):
            return 'return;'
        ct = self.G.cty(self.fn.ret)
        return 'return __dflt_%s();' % re.sub(r'\W', '_', ct)

    def phi_copies(self, frm, to):
        """emit parallel copies for phis in block `to` for edge frm->to"""
        blk = self.blocks[to]
        tmp = []
        for ins in blk.insts:
            m = re.match(r'^(%\S+|%"[^"]*") = phi ', ins)
            if not m:
                break
            p = P(tokenize(ins))
            dst = p.next()[1]; p.expect('='); p.expect('phi')
            while p.peek()[1] in ('nuw', 'nsw', 'fast'): p.next()
            ty = p.ty()
            self.var(dst, ty)
            val = None
            while True:
                p.expect('[')
                v = self.operand(p, ty); p.expect(',')
                lb = p.next()[1]
                p.expect(']')
                if lb == frm: val = v
                if not p.accept(','): break
            if val is None:
                raise SyntaxError('phi has no incoming for %s in %s' % (frm, ins[:80]))
            tmp.append((dst, val, ty))
        out = []
        if len(tmp) == 1:
            out.append('%s = %s;' % (self.var(tmp[0][0]), tmp[0][1]))
        elif tmp:
            for i, (dst, val, ty) in enumerate(tmp):
                out.append('%s pt%d = %s;' % (self.G.cty(ty), i, val))
            for i, (dst, val, ty) in enumerate(tmp):
                out.append('%s = pt%d;' % (self.var(dst), i))
        return out

    def goto(self, frm, to):
        cp = self.phi_copies(frm, to)
        return '{ %s goto %s; }' % (' '.join(cp), self.lab(to))

    def rpo(self, fn):
        succ = {}
        for b in fn.blocks:
            last = b.insts[-1]
            succ[b.label] = [l for l in re.findall(r'label (%(?:"(?:[^"\\\\]|\\\\.)*"|[-a-zA-Z$._0-9]+))', last)]
        seen, order = set(), []
        def dfs(l):
            stack = [(l, iter(succ[l]))]
            seen.add(l)
            while stack:
                n, it = stack[-1]
                for s in it:
                    if s not in seen:
                        seen.add(s); stack.append((s, iter(succ[s]))); break
                else:
                    order.append(n); stack.pop()
        dfs(fn.blocks[0].label)
        order.reverse()
        order = self.nest_loops(order, succ)
        byl = {b.label: b for b in fn.blocks}
        return [byl[l] for l in order]   # unreachable blocks dropped

    @staticmethod
    def _overlap(order, succ):
        pos = {l: i for i, l in enumerate(order)}
        iv = sorted({(pos[v], pos[u]) for u in order for v in succ[u] if v in pos and pos[v] <= pos[u]})
        for a in range(len(iv)):
            for b in range(a + 1, len(iv)):
                (s1, e1), (s2, e2) = iv[a], iv[b]
                if s1 < s2 <= e1 < e2:
                    return True
        return False

    def nest_loops(self, order, succ):
        """CBMC counts iterations per backward goto and assumes the textual regions [target, goto] of two loops are nested
        or disjoint; LLVM's block order (and plain RPO) can interleave an inner loop's latch after the outer loop's latch,
        which makes the unwinding assertion of the outer loop fail spuriously whatever the bound.  When (and only when)
        that happens, lay the blocks out so that every natural loop is contiguous, header first."""
        if not self._overlap(order, succ):
            return order
        pos = {l: i for i, l in enumerate(order)}
        pred = {l: [] for l in order}
        for u in order:
            for v in succ[u]:
                if v in pos: pred[v].append(u)
        body = {}
        for u in order:
            for h in succ[u]:
                if h in pos and pos[h] <= pos[u]:
                    bs = body.setdefault(h, {h})
                    st = [u]
                    while st:
                        n = st.pop()
                        if n in bs: continue
                        bs.add(n); st.extend(pred[n])
        def lay(blocks, header, depth=0):
            if depth > 50: raise RecursionError
            inner = [h for h in body if h != header and h in blocks and body[h] <= blocks and body[h] != blocks]
            maximal = [h for h in inner if not any(h2 != h and h in body[h2] for h2 in inner)]
            covered = set()
            nodes = []
            for m in maximal:
                if body[m] & covered: raise RecursionError
                covered |= body[m]
                nodes.append((pos[m], lay(body[m], m, depth + 1)))
            nodes += [(pos[b], [b]) for b in blocks - covered]
            nodes.sort()
            return [l for _, ls in nodes for l in ls]
        try:
            new = lay(set(order), None)
        except RecursionError:
            return order
        if len(new) != len(order) or new[0] != order[0] or self._overlap(new, succ):
            return order
        return new

    # ---- main
    def gen(self):
        fn = self.fn
        self.blocks = {b.label: b for b in fn.blocks}
        for t, n in fn.params:
            self.var(n, t)
        for b in self.rpo(fn):
            self.code.append('%s: ;' % self.lab(b.label))
            for ins in b.insts:
                try:
                    self.inst(b, ins)
                except Exception as e:
                    raise type(e)('%s\n  in inst: %s\n  in fn %s' % (e, ins[:300], fn.name))
        # assemble
        G = self.G
        params = ', '.join('%s %s' % (G.cty(t), self.var(n)) for t, n in fn.params)
        hdr = '%s %s(%s)' % (G.cty(fn.ret), G.cname(fn.name), params or 'void')
        decls = []
        pn = {n for _, n in fn.params}
        for n, (cn, ty) in self.vars.items():
            if n in pn: continue
            if ty is None:
                raise SyntaxError('untyped ssa %s in %s' % (n, fn.name))
            decls.append('  %s %s;' % (G.cty(ty), cn))
        return hdr, [hdr + ' {'] + self.allocas + decls + self.code + ['}']

    def inst(self, b, ins):
        ins = MD_TAIL.sub('', ins)
        p = P(tokenize(ins))
        dst = None
        if p.peek(1)[1] == '=' and p.peek()[0] in ('name', 'qname'):
            dst = p.next()[1]; p.next()
        k, op = p.next()
        if op in ('tail', 'musttail', 'notail'):
            k, op = p.next()
        E = self.emit
        if op == 'phi':
            return  # handled on edges
        if op == 'alloca':
            ty = p.ty()
            cnt = 1
            al = 1
            while p.accept(','):
                if p.accept('align'): al = int(p.next()[1])
                else:
                    ct, cv = self.tyop(p); cnt = cv
            sz, a0 = self.M.size_align(ty)
            cn = self.var(dst, PtrTy())
            self.allocas.append('  unsigned char %s_mem[%d] __attribute__((aligned(%d)));' % (cn, max(1, sz), max(al, 1)))
            E('%s = %s_mem;' % (cn, cn))
            return
        if op == 'load':
            if p.peek()[1] in ('volatile', 'atomic'): p.next()
            ty = p.ty(); p.expect(',')
            pt, ptr = self.tyop(p)
            rt = self.M.resolve(ty)
            if isinstance(rt, IntTy) and rt.bits not in (1, 8, 16, 32, 64, 128):
                nb = (rt.bits + 7) // 8
                d = self.var(dst, ty)
                E('{ %s t_ = 0; memcpy(&t_, %s, %d); %s = t_ & (((%s)1 << %d) - 1); }' % (self.G.cty(ty), ptr, nb, d, self.G.cty(ty), rt.bits))
                return
            E('%s = *(%s*)%s;' % (self.var(dst, ty), self.G.cty(ty), ptr))
            return
        if op == 'store':
            if p.peek()[1] in ('volatile', 'atomic'): p.next()
            ty, val = self.tyop(p); p.expect(',')
            pt, ptr = self.tyop(p)
            rt = self.M.resolve(ty)
            if isinstance(rt, IntTy) and rt.bits not in (1, 8, 16, 32, 64, 128):
                nb = (rt.bits + 7) // 8
                E('{ %s t_ = %s; memcpy(%s, &t_, %d); }' % (self.G.cty(ty), val, ptr, nb))
                return
            E('*(%s*)%s = %s;' % (self.G.cty(ty), ptr, val))
            return
        if op == 'fence':
            return
        if op == 'atomicrmw':
            if p.peek()[1] == 'volatile': p.next()
            aop = p.next()[1]
            pt, ptr = self.tyop(p); p.expect(',')
            ty, val = self.tyop(p)
            ct = self.G.cty(ty)
            d = self.var(dst, ty)
            cop = {'add': '+', 'sub': '-', 'and': '&', 'or': '|', 'xor': '^'}.get(aop)
            E('%s = *(%s*)%s;' % (d, ct, ptr))
            if aop == 'xchg': E('*(%s*)%s = %s;' % (ct, ptr, val))
            elif cop: E('*(%s*)%s = (%s)(%s %s %s);' % (ct, ptr, ct, d, cop, val))
            else: raise NotImplementedError('atomicrmw ' + aop)
            return
        if op == 'cmpxchg':
            while p.peek()[1] in ('weak', 'volatile'): p.next()
            pt, ptr = self.tyop(p); p.expect(',')
            ty, cmpv = self.tyop(p); p.expect(',')
            ty2, newv = self.tyop(p)
            ct = self.G.cty(ty)
            rt = StructTy([ty, IntTy(1)])
            d = self.var(dst, rt)
            self.G.cty(rt)
            E('%s.f0 = *(%s*)%s; %s.f1 = (%s.f0 == %s); if (%s.f1) *(%s*)%s = %s;' % (d, ct, ptr, d, d, cmpv, d, ct, ptr, newv))
            return
        if op == 'getelementptr':
            e = self.gep(p)
            E('%s = %s;' % (self.var(dst, PtrTy()), e))
            return
        if op in ('add', 'sub', 'mul', 'udiv', 'sdiv', 'urem', 'srem', 'and', 'or', 'xor', 'shl', 'lshr', 'ashr'):
            while p.peek()[1] in ('nuw', 'nsw', 'exact', 'disjoint'): p.next()
            ty = p.ty()
            a = self.operand(p, ty); p.expect(','); c = self.operand(p, ty)
            ct = self.G.cty(ty)
            bits = self.M.resolve(ty).bits
            native = bits in (8, 16, 32, 64, 128)
            cop = {'add': '+', 'sub': '-', 'mul': '*', 'udiv': '/', 'urem': '%', 'and': '&', 'or': '|', 'xor': '^',
                   'shl': '<<', 'lshr': '>>'}.get(op)
            if not native and bits > 1 and op in ('ashr', 'sdiv', 'srem'):
                if bits > 64: raise NotImplementedError('signed op on i%d' % bits)
                a, c = 'VF_SEXT64(%s,%d)' % (a, bits), ('VF_SEXT64(%s,%d)' % (c, bits) if op != 'ashr' else c)
                e = '(%s)((int64_t)%s %s (int64_t)%s)' % (ct, a, {'ashr': '>>', 'sdiv': '/', 'srem': '%'}[op], c)
            elif cop:
                e = '(%s)((%s)%s %s (%s)%s)' % (ct, ct, a, cop, ct, c)
            elif op == 'ashr':
                e = '(%s)((%s)%s >> %s)' % (ct, sgn(ct), a, c)
            else:
                e = '(%s)((%s)%s %s (%s)%s)' % (ct, sgn(ct), a, '/' if op == 'sdiv' else '%', sgn(ct), c)
            if bits == 1:
                e = '((%s) & 1)' % e
            elif not native:
                e = '((%s) & ((((%s)1) << %d) - 1))' % (e, ct, bits)
            E('%s = %s;' % (self.var(dst, ty), e))
            return
        if op == 'icmp':
            while p.peek()[1] in ('samesign',): p.next()
            pred = p.next()[1]
            ty = p.ty()
            a = self.operand(p, ty); p.expect(','); c = self.operand(p, ty)
            cop = {'eq': '==', 'ne': '!=', 'ult': '<', 'ule': '<=', 'ugt': '>', 'uge': '>=', 'slt': '<', 'sle': '<=', 'sgt': '>', 'sge': '>='}[pred]
            if isinstance(self.M.resolve(ty), PtrTy):
                a, c = '(uint64_t)' + a, '(uint64_t)' + c
            elif pred[0] == 's':
                bits = self.M.resolve(ty).bits
                if bits not in (8, 16, 32, 64, 128):
                    if bits > 64: raise NotImplementedError('signed compare on i%d' % bits)
                    a, c = 'VF_SEXT64(%s,%d)' % (a, bits), 'VF_SEXT64(%s,%d)' % (c, bits)
                else:
                    st = sgn(self.G.cty(ty)); a, c = '(%s)%s' % (st, a), '(%s)%s' % (st, c)
            E('%s = (%s %s %s);' % (self.var(dst, IntTy(1)), a, cop, c))
            return
        if op in ('zext', 'trunc', 'ptrtoint', 'inttoptr', 'bitcast', 'sext', 'freeze', 'addrspacecast'):
            while p.peek()[1] in ('nneg', 'nuw', 'nsw'): p.next()
            st, x = self.tyop(p)
            if op == 'freeze':
                E('%s = %s;' % (self.var(dst, st), x)); return
            p.expect('to'); dt = p.ty()
            if op == 'sext':
                sb = self.M.resolve(st).bits
                if sb == 1:
                    x = '(%s ? -1 : 0)' % x
                elif sb not in (8, 16, 32, 64, 128):
                    if sb > 64: raise NotImplementedError('sext from i%d' % sb)
                    x = 'VF_SEXT64(%s,%d)' % (x, sb)
                else:
                    x = '(%s)(%s)%s' % (sgn(self.G.cty(dt)), sgn(self.G.cty(st)), x)
            e = '(%s)%s' % (self.G.cty(dt), x)
            db = getattr(self.M.resolve(dt), 'bits', 64)
            if op == 'trunc' and db == 1:
                e = '(%s & 1)' % x
            elif op in ('trunc', 'sext', 'ptrtoint', 'bitcast') and db not in (8, 16, 32, 64, 128):
                e = '((%s) & ((((%s)1) << %d) - 1))' % (e, self.G.cty(dt), db)
            E('%s = %s;' % (self.var(dst, dt), e))
            return
        if op == 'select':
            ct_, c = self.tyop(p); p.expect(',')
            t1, a = self.tyop(p); p.expect(',')
            t2, bb = self.tyop(p)
            E('%s = %s ? %s : %s;' % (self.var(dst, t1), c, a, bb))
            return
        if op == 'extractvalue':
            t, a = self.tyop(p)
            cur = t; e = a
            while p.accept(','):
                i = int(p.next()[1])
                rc = self.M.resolve(cur)
                if isinstance(rc, StructTy): e += '.f%d' % i; cur = rc.fields[i]
                else: e += '.e[%d]' % i; cur = rc.el
            E('%s = %s;' % (self.var(dst, cur), e))
            return
        if op == 'insertvalue':
            t, a = self.tyop(p); p.expect(',')
            vt, v = self.tyop(p)
            d = self.var(dst, t)
            E('%s = %s;' % (d, a))
            cur = t; e = d
            while p.accept(','):
                i = int(p.next()[1])
                rc = self.M.resolve(cur)
                if isinstance(rc, StructTy): e += '.f%d' % i; cur = rc.fields[i]
                else: e += '.e[%d]' % i; cur = rc.el
            E('%s = %s;' % (e, v))
            return
        if op == 'br':
            if p.accept('label'):
                E(self.goto(b.label, p.next()[1]))
            else:
                t, c = self.tyop(p); p.expect(','); p.expect('label'); l1 = p.next()[1]; p.expect(','); p.expect('label'); l2 = p.next()[1]
                E('if (%s) %s else %s' % (c, self.goto(b.label, l1), self.goto(b.label, l2)))
            return
        if op == 'switch':
            t, c = self.tyop(p); p.expect(','); p.expect('label'); dflt = p.next()[1]
            p.expect('[')
            cases = []
            while not p.accept(']'):
                ct, cv = self.tyop(p); p.expect(','); p.expect('label'); cases.append((cv, p.next()[1]))
            for cv, l in cases:
                E('if (%s == %s) %s' % (c, cv, self.goto(b.label, l)))
            E(self.goto(b.label, dflt))
            return
        if op == 'ret':
            if p.accept('void'): E('return;')
            else:
                t, v = self.tyop(p); E('return %s;' % v)
            return
        if op == 'unreachable':
            E('__CPROVER_assert(VF_DEP(0), "UB: llvm unreachable executed"); __CPROVER_assume(0);')
            return
        if op == 'resume':
            E('__unw = 1; ' + self.ret_default())
            return
        if op == 'landingpad':
            ty = p.ty()
            E('%s = (%s){0}; __unw = 0;' % (self.var(dst, ty), self.G.cty(ty)))
            if 'catch' in ins.split():
                raise NotImplementedError('catch landingpad')
            if 'filter' in ins.split():
                # nounwind function boundary / unwind-in-cleanup: process aborts
                pass
            return
        if op in ('call', 'invoke'):
            skip_until_type(p)
            rty = p.ty()
            callee = p.next()
            p.expect('(')
            args = []
            if not p.accept(')'):
                while True:
                    if p.peek()[1] == 'metadata':
                        p.next(); p.next(); args.append(None)
                    else:
                        at = p.ty(); skip_param_attrs(p)
                        rawtok = p.peek()[1]
                        av = self.operand(p, at); args.append((at, av, rawtok))
                    if p.accept(')'): break
                    p.expect(',')
            normal = unwind = None
            while not p.eof():
                k2, v2 = p.next()
                if v2 == 'to': p.expect('label'); normal = p.next()[1]
                elif v2 == 'unwind': p.expect('label'); unwind = p.next()[1]
                elif v2 == '[':  # operand bundles
                    while p.next()[1] != ']': pass
            self.call(b, dst, rty, callee, args, normal, unwind, op)
            return
        raise NotImplementedError('instruction ' + op)

    INTR_IGNORE = ('llvm.lifetime.', 'llvm.experimental.noalias.scope.decl', 'llvm.dbg.', 'llvm.donothing', 'llvm.prefetch')

    def call(self, b, dst, rty, callee, args, normal, unwind, op):
        E = self.emit
        name = callee[1]
        bare = name[1:]
        isvoid = isinstance(self.M.resolve(rty), VoidTy)
        if bare.startswith(self.INTR_IGNORE):
            return
        a = [x[1] for x in args if x is not None]
        if bare.startswith('llvm.'):
            d = None if isvoid else self.var(dst, rty)
            if bare.startswith('llvm.assume'):
                E('__CPROVER_assert(VF_DEP(%s), "UB: llvm.assume violated"); __CPROVER_assume(%s);' % (a[0], a[0]))
            elif bare.startswith(('llvm.memcpy', 'llvm.memmove')):
                E('if (%s) memmove(%s, %s, %s);' % (a[2], a[0], a[1], a[2]))
            elif bare.startswith('llvm.memset'):
                E('if (%s) memset(%s, %s, %s);' % (a[2], a[0], a[1], a[2]))
            elif bare.startswith('llvm.umin'): E('%s = %s < %s ? %s : %s;' % (d, a[0], a[1], a[0], a[1]))
            elif bare.startswith('llvm.umax'): E('%s = %s > %s ? %s : %s;' % (d, a[0], a[1], a[0], a[1]))
            elif bare.startswith(('llvm.smin', 'llvm.smax')):
                st = sgn(self.G.cty(rty)); c = '<' if 'smin' in bare else '>'
                E('%s = (%s)%s %s (%s)%s ? %s : %s;' % (d, st, a[0], c, st, a[1], a[0], a[1]))
            elif bare.startswith('llvm.is.constant'): E('%s = 0;' % d)
            elif bare.startswith('llvm.expect'): E('%s = %s;' % (d, a[0]))
            elif bare.startswith(('llvm.uadd.with.overflow', 'llvm.usub.with.overflow', 'llvm.umul.with.overflow')):
                ct = self.G.cty(args[0][0]); o = {'uadd': 'add', 'usub': 'sub', 'umul': 'mul'}[bare.split('.')[1]]
                E('{ %s r_; %s.f1 = __builtin_%s_overflow((%s)%s, (%s)%s, &r_); %s.f0 = r_; }' % (ct, d, o, ct, a[0], ct, a[1], d))
            elif bare.startswith(('llvm.uadd.sat', 'llvm.usub.sat')):
                ct = self.G.cty(rty)
                if 'uadd' in bare: E('%s = (%s)(%s + %s) < %s ? (%s)-1 : (%s)(%s + %s);' % (d, ct, a[0], a[1], a[0], ct, ct, a[0], a[1]))
                else: E('%s = %s > %s ? (%s)(%s - %s) : 0;' % (d, a[0], a[1], ct, a[0], a[1]))
            elif bare.startswith('llvm.memcpy.inline'):
                E('if (%s) memmove(%s, %s, %s);' % (a[2], a[0], a[1], a[2]))
            elif bare.startswith('llvm.abs'):
                st = sgn(self.G.cty(rty))
                E('%s = (%s)%s < 0 ? (%s)(0 - %s) : %s;' % (d, st, a[0], self.G.cty(rty), a[0], a[0]))
            elif bare.startswith(('llvm.sadd.with.overflow', 'llvm.ssub.with.overflow', 'llvm.smul.with.overflow')):
                ct = self.G.cty(args[0][0]); o = {'sadd': 'add', 'ssub': 'sub', 'smul': 'mul'}[bare.split('.')[1]]
                bits = self.M.resolve(args[0][0]).bits
                if bits not in (8, 16, 32, 64): raise NotImplementedError('signed overflow intrinsic on i%d' % bits)
                E('{ %s r_; %s.f1 = __builtin_%s_overflow((%s)%s, (%s)%s, &r_); %s.f0 = (%s)r_; }' % (sgn(ct), d, o, sgn(ct), a[0], sgn(ct), a[1], d, ct))
            elif bare.startswith(('llvm.sadd.sat', 'llvm.ssub.sat')):
                ct = self.G.cty(rty); st = sgn(ct)
                bits = self.M.resolve(rty).bits
                if bits not in (8, 16, 32, 64): raise NotImplementedError('signed saturating intrinsic on i%d' % bits)
                o = 'add' if 'sadd' in bare else 'sub'
                mx = '(%s)((((%s)1) << %d) - 1)' % (st, ct, bits - 1)
                E('{ %s r_; if (__builtin_%s_overflow((%s)%s, (%s)%s, &r_)) r_ = ((%s)%s < 0) ? (%s)(-%s - 1) : %s; %s = (%s)r_; }' % (
                    st, o, st, a[0], st, a[1], st, a[0], st, mx, mx, d, ct))
            elif bare.startswith('llvm.bitreverse'):
                bits = self.M.resolve(rty).bits
                ct = self.G.cty(rty)
                E('{ %s x_ = %s, r_ = 0; for (int i_ = 0; i_ < %d; i_++) { r_ = (%s)((r_ << 1) | (x_ & 1)); x_ >>= 1; } %s = r_; }' % (ct, a[0], bits, ct, d))
            elif bare.startswith('llvm.ptrmask'):
                E('%s = (unsigned char*)((uint64_t)%s & (uint64_t)%s);' % (d, a[0], a[1]))
            elif bare.startswith('llvm.objectsize'):
                E('%s = (%s)-1;' % (d, self.G.cty(rty)))
            elif bare.startswith(('llvm.stacksave', 'llvm.stackrestore', 'llvm.sideeffect', 'llvm.invariant.', 'llvm.launder.invariant', 'llvm.strip.invariant', 'llvm.var.annotation', 'llvm.codeview', 'llvm.pseudoprobe')):
                if d is not None: E('%s = (%s)0;' % (d, self.G.cty(rty)))
            elif bare.startswith(('llvm.fshl', 'llvm.fshr')):
                bits = self.M.resolve(rty).bits
                if bits not in (8, 16, 32, 64): raise NotImplementedError('funnel shift on i%d' % bits)
                ct = self.G.cty(rty)
                sh = '((%s) %% %d)' % (a[2], bits)
                if 'fshl' in bare:
                    E('%s = %s == 0 ? %s : (%s)(((%s)%s << %s) | ((%s)%s >> (%d - %s)));' % (d, sh, a[0], ct, ct, a[0], sh, ct, a[1], bits, sh))
                else:
                    E('%s = %s == 0 ? %s : (%s)(((%s)%s << (%d - %s)) | ((%s)%s >> %s));' % (d, sh, a[1], ct, ct, a[0], bits, sh, ct, a[1], sh))
            elif bare.startswith('llvm.bswap'):
                bits = self.M.resolve(rty).bits
                E('%s = (%s)__builtin_bswap%d(%s);' % (d, self.G.cty(rty), bits, a[0]))
            elif bare.startswith('llvm.ctlz'):
                bits = self.M.resolve(rty).bits
                E('%s = %s ? (%s)(__builtin_clzll((unsigned long long)%s) - (64 - %d)) : %d;' % (d, a[0], self.G.cty(rty), a[0], bits, bits))
            elif bare.startswith('llvm.cttz'):
                bits = self.M.resolve(rty).bits
                E('%s = %s ? (%s)__builtin_ctzll((unsigned long long)%s) : %d;' % (d, a[0], self.G.cty(rty), a[0], bits))
            elif bare.startswith('llvm.ctpop'):
                E('%s = (%s)__builtin_popcountll((unsigned long long)%s);' % (d, self.G.cty(rty), a[0]))
            elif bare.startswith('llvm.trap') or bare.startswith('llvm.ubsantrap'):
                E('__CPROVER_assert(VF_DEP(0), "ABORT: llvm.trap reached"); __CPROVER_assume(0);')
            else:
                raise NotImplementedError('intrinsic ' + bare)
            if op == 'invoke':
                E(self.goto(b.label, normal))
            return
        if bare in ('vf_check_c', 'vf_reach_c') and op == 'call':
            idx = 1 if bare == 'vf_check_c' else 0
            mm = re.fullmatch(r'\(\(uint32_t\)(\d+)ULL\)', a[idx])
            if mm:
                if bare == 'vf_check_c':
                    E('__CPROVER_assert(VF_DEP(%s), "VF:%s");' % (a[0], mm.group(1)))
                else:
                    E('VF_REACH_SITE(%s);' % mm.group(1))
                self.G.ids.setdefault(self.fn.name, set()).add((bare, int(mm.group(1))))
                return
            # LLVM merged several sites into one call with a select/phi of constant ids: split it again
            raw = args[idx][2] if len(args[idx]) > 2 else None
            cs = self.const_set(raw) if raw else None
            if cs:
                for k in sorted(cs):
                    if bare == 'vf_check_c':
                        E('if (%s == %d) __CPROVER_assert(VF_DEP(%s), "VF:%d");' % (a[idx], k, a[0], k))
                    else:
                        E('if (%s == %d) VF_REACH_SITE(%d);' % (a[idx], k, k))
                    self.G.ids.setdefault(self.fn.name, set()).add((bare, k))
                return
            if bare == 'vf_reach_c':
                raise NotImplementedError('vf_reach_c with a non-constant id that is not a select/phi of constants')
        if name[0] == '%':
            # indirect call
            fty = '%s (*)(%s)' % (self.G.cty(rty), ', '.join(self.G.cty(x[0]) for x in args) or 'void')
            fexpr = '((%s)%s)' % (fty, self.var(name))
        else:
            fexpr = self.G.cname(name)
            self.G.used_fns.setdefault(name, (rty, [x[0] for x in args]))
        callx = '%s(%s)' % (fexpr, ', '.join(a))
        if isvoid:
            E(callx + ';')
        else:
            E('%s = %s;' % (self.var(dst, rty), callx))
        if op == 'invoke':
            E('if (__unw) %s else %s' % (self.goto(b.label, unwind), self.goto(b.label, normal)))
        else:
            E('if (__unw) ' + self.ret_default())



PRELUDE = r"""
#include <stdint.h>
#include <stddef.h>
#include <string.h>
extern int __unw;
extern unsigned __panics;
uint64_t __VERIFIER_nondet_u64(void);
static inline uint64_t __undef_u64(void) { return __VERIFIER_nondet_u64(); }
#define VF_SEXT64(x,b) ((int64_t)((uint64_t)(x) << (64-(b))) >> (64-(b)))
unsigned char *vf_alloc_stub(uint64_t size);
/* trace runs (-DVF_TRACE) make every harness assertion depend on the replay log, so that --slice-formula keeps the
   logged nondeterministic draws in the formula; vf_log_dep() is always 0 (see prelude.c) */
unsigned char vf_log_dep(void);
extern uint64_t __vf_never;
#ifdef VF_TRACE
#define VF_DEP(c) ((c) || vf_log_dep())
#else
#define VF_DEP(c) (c)
#endif
#ifdef VF_REACH
#define VF_REACH_SITE(id) __CPROVER_assert(VF_DEP(0), "REACH:" #id)
#else
#define VF_REACH_SITE(id) ((void)0)
#endif
"""


def is_panic_entry(name):
    n = name
    return ('9panicking' in n and ('panic' in n or 'assert_failed' in n)) or 'slice_index_fail' in n or \
        'expect_failed' in n or 'unwrap_failed' in n or 'slice_start_index_len_fail' in n or 'slice_end_index_len_fail' in n \
        or 'slice_index_order_fail' in n or 'panic_const' in n or '_index_len_fail' in n or 'panic_bounds_check' in n \
        or 'copy_from_slice' in n and 'len_mismatch_fail' in n or 'begin_panic' in n or n.endswith('rust_begin_unwind') \
        or 'rust_panic' in n and 'rust_panic_' not in n


def is_alloc_entry(name):
    if name in ('@malloc', '@free', '@realloc', '@calloc', '@posix_memalign', '@aligned_alloc', '@memalign'):
        return True   # the system allocator behind std's default global allocator (fat-LTO modules inline __rdl_*)
    return bool(re.search(r'__rust_(alloc|dealloc|realloc|alloc_zeroed|no_alloc_shim)|__rdl_|__rg_|__rustc.*__rust_(alloc|dealloc|realloc)|handle_alloc_error', name))


def is_abort_entry(name):
    return 'panic_in_cleanup' in name or 'panic_cannot_unwind' in name or 'panic_nounwind' in name or \
        name in ('@abort',) or 'process5abort' in name


def demangle(sym):
    """legacy rustc mangling -> readable path (best effort); other names returned unchanged"""
    s = sym[1:] if sym[:1] == '@' else sym
    s = s.strip('"')
    if not s.startswith('_ZN'):
        return s
    i, parts = 3, []
    while i < len(s) and s[i].isdigit():
        j = i
        while s[j].isdigit(): j += 1
        n = int(s[i:j]); parts.append(s[j:j + n]); i = j + n
    if parts and re.fullmatch(r'h[0-9a-f]{16}', parts[-1]):
        parts.pop()
    out = '::'.join(parts)
    for a, b in (('$LT$', '<'), ('$GT$', '>'), ('$u20$', ' '), ('$RF$', '&'), ('$BP$', '*'), ('$C$', ','), ('$LP$', '('),
                 ('$RP$', ')'), ('$u5b$', '['), ('$u5d$', ']'), ('$u7b$', '{'), ('$u7d$', '}'), ('$u3b$', ';'), ('$u2b$', '+'),
                 ('$u27$', "'"), ('$u21$', '!'), ('..', '::')):
        out = out.replace(a, b)
    return out.lstrip('_') if out.startswith('_<') or out.startswith('_$') else out


SYMRE = re.compile(r'@(?:"(?:[^"\\\\]|\\\\.)*"|[-a-zA-Z$._0-9]+)')


class TranslateError(Exception):
    pass


class Translator:
    """parse once, emit one closed C translation unit per entry point"""

    def __init__(self, text):
        self.M = parse_module(text)
        self.G = CGen(self.M)
        self.G.used_fns = {}
        self.G.addr_taken = set()
        self.G.ids = {}
        self.byname = {f.name: f for f in self.M.funcs}
        self.fcache = {}   # name -> (proto, body, refs)
        self.nstructs_emitted = 0

    def _noreturn_decl(self, s):
        """a body-less external that never returns can only panic or abort: modelled as a panic entry point
        (libcore has many: slice_error_fail, panic_already_borrowed, ...); allocator and abort symbols are matched before"""
        if s in self.byname or s not in self.M.decls:
            return False
        return any('noreturn' in self.M.attr_groups.get(a, '') for a in self.M.decl_attrs.get(s, []))

    def entries(self, prefix='h_'):
        return sorted(f.name[1:] for f in self.M.funcs if f.name[1:].startswith(prefix))

    def _gen(self, name):
        if name in self.fcache:
            return self.fcache[name]
        if name in self.M.aliases:
            # function alias (LLVM mergefunc): a forwarding wrapper with the aliasee's signature
            tgt = self.M.aliases[name]
            while tgt in self.M.aliases:
                tgt = self.M.aliases[tgt]
            if tgt not in self.byname:
                raise TranslateError('alias %s of a non-function %s' % (name, tgt))
            f = self.byname[tgt]
            G = self.G
            params = ', '.join('%s a%d' % (G.cty(t), i) for i, (t, _) in enumerate(f.params))
            hdr = '%s %s(%s)' % (G.cty(f.ret), G.cname(name), params or 'void')
            call = '%s(%s);' % (G.cname(tgt), ', '.join('a%d' % i for i in range(len(f.params))))
            body = hdr + ' { ' + ('' if isinstance(self.M.resolve(f.ret), VoidTy) else 'return ') + call + ' }'
            r = (hdr + ';', body, {tgt}, {}, set())
            self.fcache[name] = r
            return r
        fn = self.byname[name]
        fn.parse()
        refs = set()
        for b in fn.blocks:
            for ins in b.insts:
                refs.update(SYMRE.findall(ins))
        save_used, save_addr = self.G.used_fns, self.G.addr_taken
        self.G.used_fns, self.G.addr_taken = {}, set()
        try:
            hdr, lines = FGen(self.G, fn).gen()
        except (SyntaxError, NotImplementedError, KeyError, IndexError, AttributeError) as e:
            raise TranslateError('unsupported IR construct: %s' % e)
        finally:
            used, addr = self.G.used_fns, self.G.addr_taken
            self.G.used_fns, self.G.addr_taken = save_used, save_addr
        fn.blocks = []   # free memory
        r = (hdr + ';', '\n'.join(lines), refs, used, addr)
        self.fcache[name] = r
        return r

    def emit(self, entry):
        """returns (c_text, info) for the closure of `entry` (symbol without '@')"""
        M, G = self.M, self.G
        work = ['@' + entry]
        reach_f, reach_g, stubs, externs = [], [], set(), {}
        seen = set()
        used_all, addr_all = {}, set()
        while work:
            s = work.pop()
            if s in seen:
                continue
            seen.add(s)
            if s.startswith('@llvm.'):
                continue
            if is_panic_entry(s) or is_abort_entry(s) or is_alloc_entry(s) or self._noreturn_decl(s):
                stubs.add(s)
                continue
            if s in self.byname or s in M.aliases:
                proto, body, refs, used, addr = self._gen(s)
                reach_f.append(s)
                used_all.update(used); addr_all |= addr
                work.extend(refs)
            elif s in M.globals:
                reach_g.append(s)
                work.extend(v for k, v in M.globals[s][1] if k in ('name', 'qname') and v[0] == '@')
            elif s in M.decls:
                externs[s] = M.decls[s]
        if ('@' + entry) not in self.byname and ('@' + entry) not in M.aliases:
            raise TranslateError('entry %s not defined in module' % entry)
        out = [PRELUDE]
        # globals (need struct defs possibly) -- build first so struct list is complete
        ginit, gdecl = [], []
        for g in sorted(reach_g):
            ty, init = M.globals[g]
            sz, al = M.size_align(ty)
            al = max(al, 8 if sz >= 8 else 1)
            items = []
            try:
                const_items(M, ty, P(list(init)), 0, items)
            except Exception as e:
                raise TranslateError('unsupported initialiser of %s: %s' % (g, e))
            data = bytearray(max(sz, 1))
            for it in items:
                if it[0] == 'b':
                    data[it[1]:it[1] + len(it[2])] = it[2]
            cn = G.cname(g)
            if any(data):
                gdecl.append('unsigned char %s[%d] __attribute__((aligned(%d))) = {%s};' % (cn, len(data), al, ','.join(str(b) for b in data)))
            else:
                gdecl.append('unsigned char %s[%d] __attribute__((aligned(%d)));' % (cn, len(data), al))
            for it in items:
                if it[0] == 'p':
                    tgt = it[2]
                    amp = '' if tgt in M.globals else '&'
                    ginit.append('  *(unsigned char**)(%s + %d) = ((unsigned char*)%s%s) + %d;' % (cn, it[1], amp, G.cname(tgt), it[3]))
                    if tgt not in M.globals:
                        addr_all.add(tgt)
                        if tgt in self.byname and tgt not in seen:
                            raise TranslateError('internal: function %s referenced from global only' % tgt)
        # stub / extern prototypes
        decl_lines = []
        ext_names = []
        def sig(name):
            while name in M.aliases:
                name = M.aliases[name]
            if name in self.byname:
                f = self.byname[name]
                return f.ret, [t for t, _ in f.params]
            if name in M.decls:
                d = M.decls[name]
                return d[0], d[1]
            if name in used_all:
                return used_all[name]
            return None
        for name in sorted(stubs):
            sg = sig(name)
            if sg is None:
                continue
            ret, ptys = sg
            cn = G.cname(name)
            params = ', '.join('%s a%d' % (G.cty(t), i) for i, t in enumerate(ptys)) or 'void'
            isvoid = isinstance(M.resolve(ret), VoidTy)
            if is_abort_entry(name):
                decl_lines.append('%s %s(%s) { __CPROVER_assert(VF_DEP(0), "ABORT: process abort reached"); __CPROVER_assume(0); }' % (G.cty(ret), cn, params))
            elif is_alloc_entry(name):
                if isinstance(M.resolve(ret), PtrTy):
                    decl_lines.append('%s %s(%s) { return vf_alloc_stub(%s); }' % (G.cty(ret), cn, params, 'a0' if ptys else '1'))
                else:
                    decl_lines.append('%s %s(%s) { __CPROVER_assert(VF_DEP(0), "ALLOC: allocator called"); %s}' % (
                        G.cty(ret), cn, params, '' if isvoid else 'return (%s)0; ' % G.cty(ret)))
            else:
                decl_lines.append('%s %s(%s) { __unw = 1; __panics++; %s}' % (
                    G.cty(ret), cn, params, '' if isvoid else 'return __dflt_%s(); ' % re.sub(r'\W', '_', G.cty(ret))))
        for name in sorted(externs):
            ret, ptys, va = externs[name]
            cn = G.cname(name)
            params = ', '.join('%s a%d' % (G.cty(t), i) for i, t in enumerate(ptys)) or 'void'
            decl_lines.append('%s %s(%s); /* external */' % (G.cty(ret), cn, params))
            ext_names.append(name[1:].strip('"'))
        protos, bodies = [], []
        for f in reach_f:
            proto, body, _, _, _ = self.fcache[f]
            protos.append(proto); bodies.append(body)
        out += G.struct_defs
        for key, cn in G.structs.items():
            out.append('static inline %s __dflt_%s(void) { %s x; return x; }' % (cn, cn, cn))
            out.append('static inline %s __undef_%s(void) { %s x; return x; }' % (cn, cn, cn))
        for ct in ('uint8_t', 'uint16_t', 'uint32_t', 'uint64_t', 'unsigned char', 'unsigned char*', 'unsigned __int128'):
            out.append('static inline %s __dflt_%s(void) { return (%s)__VERIFIER_nondet_u64(); }' % (ct, re.sub(r'\W', '_', ct), ct))
        out += gdecl
        out += protos
        out += decl_lines
        out.append('void __vf_init_globals(void) {')
        out += ginit
        out.append('}')
        out += bodies
        en = G.cname('@' + entry)
        out.append('void m_%s(void) {' % en)
        out.append('  __vf_never = __VERIFIER_nondet_u64(); __CPROVER_assume((__vf_never & 1) == 0);')
        out.append('  __vf_init_globals();')
        out.append('  %s();' % en)
        out.append('  __CPROVER_assert(VF_DEP(!__unw), "ESCAPE: panic escaped the harness");')
        out.append('}')
        ids = set()
        for f in reach_f:
            ids |= self.G.ids.get(f, set())
        info = {
            'functions': sorted(demangle(f) for f in reach_f),
            'n_functions': len(reach_f),
            'stubs': sorted(demangle(x) for x in stubs),
            'externs': sorted(ext_names),
            'globals': len(reach_g),
            'check_ids': sorted(i for k, i in ids if k == 'vf_check_c'),
            'reach_ids': sorted(i for k, i in ids if k == 'vf_reach_c'),
            'c_entry': 'm_' + en,
        }
        return '\n'.join(out) + '\n', info


def main():
    src, entry, dst = sys.argv[1], sys.argv[2], sys.argv[3]
    T = Translator(open(src).read())
    c, info = T.emit(entry)
    open(dst, 'w').write(c)
    import json
    print(json.dumps(info, indent=1))


if __name__ == '__main__':
    main()
