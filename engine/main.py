"""check driver: ./check <Cxx> --tier quick|thorough ; ./check --replay <file>"""
import hashlib
import json
import os
import subprocess
import sys
import time

import runner
import checks
from runner import log, Inconclusive, VERIF

KNOWN = os.path.join(VERIF, 'known_findings.json')


def load_known():
    try:
        return json.load(open(KNOWN))
    except FileNotFoundError:
        return {'fixed': [], 'open': []}


def known_match(known, prop, family, cls, cid):
    for e in known.get('open', []):
        if e.get('property') == prop and e.get('harness') == family and cid in e.get('ids', []) and e.get('cls', 'VF') == cls:
            return e
    return None


def repo_state():
    def g(*a):
        return subprocess.run(['git', '-C', runner.REPO] + list(a), stdout=subprocess.PIPE, text=True).stdout.strip()
    return {'head': g('rev-parse', 'HEAD'), 'dirty_files': [l[3:] for l in g('status', '--porcelain').splitlines() if not l.startswith('??')]}


def confirm(prop, res, fail, caps):
    """solver counterexample -> replay vector -> native run.  Returns (status, vector, native)
    status: 'reproduced' | 'not-reproduced' | 'no-trace'"""
    vec = runner.get_trace(res, fail['prop'], caps)
    if vec is None:
        return 'no-trace', None, None
    native = runner.replay_native(res['harness'], res['group'], vec, feats=res.get('feats', ()))
    cls, cid = fail['cls'], fail['id']
    ok = False
    for prof, got in native.items():
        if not isinstance(got, set):
            continue
        if cls == 'VF' and (cid in got or (cid == -1 and got)):
            ok = True
        elif cls == 'ESCAPE' and -2 in got:
            ok = True
        elif cls == 'ALLOC' and -3 in got:
            ok = True   # the native run made heap requests
        elif cls in ('MEM', 'UB', 'ABORT') and (got - {-3}):
            ok = True   # UB manifests natively as some failing check / crash
    nat = {k: (sorted(v) if isinstance(v, set) else v) for k, v in native.items()}
    return ('reproduced' if ok else 'not-reproduced'), vec, nat


def write_replay(prop, res, fail, vec, native, status):
    os.makedirs(os.path.join(VERIF, 'replays'), exist_ok=True)
    h = hashlib.sha1(json.dumps([res['harness'], res['profile'], fail['cls'], fail['id'], vec]).encode()).hexdigest()[:10]
    path = os.path.join(VERIF, 'replays', '%s-%s-%s.json' % (prop, res['harness'], h))
    meaning = checks.meaning(prop, fail['id']) if fail['cls'] == 'VF' else fail['desc']
    json.dump({'property': prop, 'harness': res['harness'], 'group': res['group'], 'feats': res.get('feats', []), 'profile': res['profile'],
               'failing': {'class': fail['cls'], 'id': fail['id'], 'meaning': meaning, 'cbmc_property': fail['prop'], 'desc': fail['desc']},
               'vector': vec, 'native': native, 'status': status, 'cbmc_cmd': res.get('cmd'),
               'how_to_replay': './check --replay %s' % os.path.relpath(path, VERIF)}, open(path, 'w'), indent=1)
    return path


def do_replay(path):
    d = json.load(open(path))
    native = runner.replay_native(d['harness'], d['group'], d['vector'], feats=d.get('feats', ()))
    for prof, got in native.items():
        log('replay %s [%s]: %s' % (d['harness'], prof, sorted(got) if isinstance(got, set) else got))
    want = d['failing']['id']
    hit = any(isinstance(g, set) and (want in g or (d['failing']['class'] != 'VF' and g)) for g in native.values())
    log('REPRODUCED' if hit else 'NOT-REPRODUCED')
    return 1 if hit else 0


def nostd_gate():
    """C06 (iii): not a solver query -- the library must compile with default features (no_std in effect), in the dev
    AND the release profile (cfg(debug_assertions) can hide a std:: path from one of them)"""
    outs, ok_n, ok_s = [], True, True
    for prof in ([], ['--release']):
        for extra in ([], ['serde']):   # the optional serde code is no_std code as well
            cmd = ['build', '--offline', '--lib'] + prof
            rc1, out1 = runner.cargo(cmd + (['--features', ','.join(extra)] if extra else []), 'gate-nostd', cwd=runner.REPO)
            rc2, out2 = runner.cargo(cmd + ['--features', ','.join(['std'] + extra)], 'gate-std', cwd=runner.REPO)
            ok_n = ok_n and rc1 == 0
            ok_s = ok_s and rc2 == 0
            if rc1 != 0:
                outs.append('$ cargo %s %s\n%s' % (' '.join(cmd), ' '.join(extra), out1[-2500:]))
    return {'nostd_ok': ok_n, 'std_ok': ok_s, 'cmd': 'cd /repo && cargo build --offline --lib [--release] [--features serde]', 'out': '\n'.join(outs)}


def run_property(prop, tier, seed):
    t0 = time.time()
    runner.RUN_TAG = prop
    caps = dict(checks.TIERS[tier])
    for k_, v_ in checks.PROP_CAPS.get(prop, {}).items():
        caps[k_] = max(caps[k_], v_)
    obs = checks.obligations(prop, tier)
    only = os.environ.get('VERIF_ONLY')   # debugging aid: regex over obligation names
    if only:
        import re
        obs = [o for o in obs if re.search(only, o.name)]
    log('%s tier=%s: %d obligations (engine L: rustc LLVM IR -> C -> CBMC)' % (prop, tier, len(obs)))
    gate = checks.PROPS[prop].get('gate')
    gate_info = nostd_gate() if gate == 'nostd_build' else None
    try:
        results, builds = runner.run_all(obs, caps, label=prop)
    except Inconclusive as e:
        if gate_info and not gate_info['nostd_ok'] and gate_info['std_ok']:
            log('  harness build failed (%s); the build gate explains it' % str(e).splitlines()[0][:120])
            results, builds = [], {}
        else:
            raise
    known = load_known()
    violations, known_hits, inconclusive = [], [], []
    if gate == 'nostd_build':
        log('  build gate: no-std build %s, std build %s' % ('ok' if gate_info['nostd_ok'] else 'FAILED', 'ok' if gate_info['std_ok'] else 'FAILED'))
        if not gate_info['nostd_ok'] and gate_info['std_ok']:
            os.makedirs(os.path.join(VERIF, 'replays'), exist_ok=True)
            path = os.path.join(VERIF, 'replays', '%s-build-gate.json' % prop)
            json.dump({'property': prop, 'kind': 'build gate (not a solver query)', 'cmd': gate_info['cmd'], 'output': gate_info['out'][-4000:]}, open(path, 'w'), indent=1)
            violations.append(({'harness': 'build-gate', 'profile': '-', 'ob': 'build-gate'}, {'cls': 'GATE', 'id': 0, 'desc': 'the crate does not build without the standard library', 'replay': os.path.relpath(path, VERIF)}, path))
        elif not gate_info['nostd_ok']:
            inconclusive.append('build gate: /repo does not compile with or without std')
    cands = []
    for r in results:
        if r['verdict'] == 'inconclusive':
            inconclusive.append('%s: %s' % (r['ob'], r.get('why', '')))
            continue
        if r['verdict'] != 'cex':
            continue
        rel = [f for f in r['fails'] if checks.relevant(prop, f)]
        r['relevant_fails'] = rel
        if not rel and r.get('vacuous'):
            inconclusive.append('%s: %s' % (r['ob'], r.get('why', '')))
        for f in rel:
            cands.append((r, f))
    # one confirmation per (family, class, id); harness assertions first, smallest capacity first
    order = {'VF': 0, 'ESCAPE': 1, 'ALLOC': 1, 'ABORT': 2, 'UB': 3, 'MEM': 3}
    cands.sort(key=lambda rf: (order.get(rf[1]['cls'], 9), sum(rf[0].get('params') or [0]), rf[0]['ob'], rf[1]['id']))
    seen_keys = set()
    budget = 16
    unconfirmed = []
    for r, f in cands:
        key = (r['family'], f['cls'], f['id'])
        if key in seen_keys:
            continue
        seen_keys.add(key)
        if violations or budget <= 0:
            break   # one reproduced, unlisted violation decides the exit code
        budget -= 1
        status, vec, native = confirm(prop, r, f, caps)
        path = write_replay(prop, r, f, vec, native, status) if vec is not None else None
        f['confirm'] = status
        f['replay'] = path and os.path.relpath(path, VERIF)
        if status == 'reproduced':
            k = known_match(known, prop, r['family'], f['cls'], f['id'])
            if k:
                known_hits.append((k, r, f))
            else:
                violations.append((r, f, path))
        else:
            unconfirmed.append('%s: counterexample for %s:%s did not reproduce natively (%s) -> translator/stub/harness suspect; replay=%s' % (
                r['ob'], f['cls'], f['id'], status, f['replay']))
    if not violations:
        inconclusive += unconfirmed
    # engine K cross-check (thorough tier): the same harness functions under Kani must get the same verdict
    kani_res = {}
    if tier == 'thorough' and not only and not os.environ.get('VERIF_NO_KANI'):
        import kani
        fams = set(checks.PROPS[prop]['fams'].split())
        kani_res = kani.run_for(fams)
        lverdict = {}
        for r in results:
            lverdict.setdefault((r['family'], tuple(r.get('params') or [])), []).append(r['verdict'] == 'pass' or (r['verdict'] == 'cex' and not r.get('relevant_fails')))
        for pr in kani.SUBSET:
            if pr['name'] not in kani_res:
                continue
            l_ok = all(lverdict.get((pr['family'], tuple(pr['caps'])), [True]))
            k = kani_res[pr['name']]
            if k.startswith('error'):
                inconclusive.append('engine K: %s: %s' % (pr['name'], k))
            elif (k == 'pass') != l_ok and not violations:
                inconclusive.append('engines disagree on %s: L=%s K=%s (neither is preferred: investigate)' % (pr['name'], 'pass' if l_ok else 'fail', k))
    for k, r, f in known_hits:
        log('KNOWN-FINDING: property=%s %s (harness %s, check %s:%s)' % (prop, k.get('what', ''), r['harness'], f['cls'], f['id']))
    for r, f, path in violations:
        meaning = checks.meaning(prop, f['id'], f['desc']) if f['cls'] == 'VF' else f['desc']
        log('VIOLATION property=%s replay=%s' % (prop, path))
        log('  harness=%s profile=%s check=%s:%s (%s)' % (r['harness'], r['profile'], f['cls'], f['id'], meaning))
    write_evidence(prop, tier, seed, results, builds, violations, known_hits, inconclusive, time.time() - t0, kani_res)
    if violations:
        return 1
    if inconclusive:
        for m in inconclusive[:20]:
            log('INCONCLUSIVE: ' + m)
        return 2
    log('%s: all %d obligations discharged in %.0fs' % (prop, len(results), time.time() - t0))
    return 0


def write_evidence(prop, tier, seed, results, builds, violations, known_hits, inconclusive, wall, kani_res=None):
    os.makedirs(os.path.join(VERIF, 'evidence'), exist_ok=True)
    passed = [r for r in results if r['verdict'] == 'pass']
    # an obligation also counts as discharged for this property if its only failures belong to other properties
    for r in results:
        if r['verdict'] == 'cex' and not r.get('relevant_fails') and not r.get('vacuous'):
            passed.append(r)
    funcs = set()
    stubs = set()
    for r in results:
        funcs.update(r.get('info', {}).get('functions', []))
        stubs.update(r.get('info', {}).get('stubs', []))
    evaluations = sum(r.get('n_checked', 0) for r in results)
    nontrivial = len({r['ob'] for r in passed if r.get('reach_ids') and not r.get('vacuous')})
    samples = []
    for r in results[:3] + results[-2:]:
        samples.append({k: r.get(k) for k in ('ob', 'verdict', 'unwind', 'tries', 'n_props', 'n_checked', 'reach_ids', 'reached',
                                               'stats', 'solver_secs', 'cmd', 'why')} | {
            'check_ids': r.get('info', {}).get('check_ids'), 'n_functions': r.get('info', {}).get('n_functions')})
    for r, f, path in violations:
        samples.append({'violation': r['ob'], 'check': '%s:%s' % (f['cls'], f['id']), 'replay': f.get('replay')})
    micromap_fns = sorted(f for f in funcs if 'micromap' in f)
    ev = {
        'property_id': prop, 'tier': tier, 'seed': seed, 'level': 'model_checking',
        'coverage': {
            'obligations': len(results), 'discharged': len(passed),
            'evaluations': evaluations, 'distinct_nontrivial': nontrivial,
            'rule': 'one obligation = one harness entry (operation x capacity x build profile) decided by CBMC for ALL values of its symbolic '
                    'inputs within the unwind bound; evaluations = solver properties decided (harness assertions + pointer/bounds/UB checks '
                    '+ unwinding assertions); an obligation is non-trivial iff every vf::reach witness in it was shown reachable by the solver',
            'samples': samples,
            'exhaustive': False,
            'bounds': {'capacities_and_params': sorted({tuple(r.get('params') or []) for r in results}),
                       'profiles': sorted({r['profile'] for r in results}),
                       'unwind_max': max([r.get('unwind') or 0 for r in results] or [0]),
                       'outside': 'capacities above the listed ones; key/value types other than the ledger tokens (u8 key classes); '
                                  'auto-vectorised code; LLVM parameter attributes and nuw/nsw poison are not modelled'},
            'functions_encoded': {'micromap': micromap_fns, 'total_distinct': len(funcs),
                                  'note': 'non-inlined functions in the translated modules; inlined callees are part of their callers'},
            'stubs': sorted(stubs),
            'builds': [{'profile': k[0], 'features': list(k[1]), 'lto': k[2], 'opt_level_override': k[3], **{a: b for a, b in v.items() if a != 'll'}} for k, v in builds.items()],
            'queries': len(results) + sum(len(r.get('tries', [])) - 1 for r in results if r.get('tries')),
            'solver_seconds': round(sum(r.get('solver_secs', 0) for r in results), 1),
            'sat_variables_max': max([r.get('stats', {}).get('variables', 0) for r in results] or [0]),
            'inconclusive': inconclusive[:50],
            'engine_K': {'proofs': kani_res or {}, 'agree_with_engine_L': bool(kani_res) and not any('engines disagree' in x or 'engine K' in x for x in inconclusive),
                         'note': 'Kani 0.68 (MIR -> goto, dev profile) on the same generic harness functions; thorough tier only; cannot unwind, so post-panic behaviour is engine L only'},
            'known_findings_hit': [k.get('what') for k, _, _ in known_hits],
            'allocator_symbols_referenced': sorted(x for x in stubs if 'alloc' in x),
            'repo': repo_state(),
            'engines': {'cbmc': '6.11.0 (CaDiCaL)', 'rustc': subprocess.run(['rustc', '--version'], stdout=subprocess.PIPE, text=True).stdout.strip()},
        },
        'assumptions': [
            'trusted: rustc IR emission, engine/ll2c.py (IR->C), CBMC C front end + memory model, SAT solver',
            'profile rel = opt-level 3 without auto-vectorisation; profile dbg = opt-level 1 with debug assertions and overflow checks',
            'pre-states are built through the public API (symbolic fill level, pairwise different symbolic keys); no raw-parts constructor',
            'panic entry points of libcore are stubs that set the unwinding flag; double panics (abort) end the path with a failed ABORT property',
        ],
        'wall_s': round(wall, 1),
        'violations': len(violations),
    }
    name = prop + '.json' if not (os.environ.get('VERIF_ONLY') or os.environ.get('VERIF_DEBUG_EVIDENCE')) else '_debug_' + prop + '.json'   # partial debug runs never replace the evidence
    json.dump(ev, open(os.path.join(VERIF, 'evidence', name), 'w'), indent=1)


def main(argv):
    if not argv:
        log(__doc__)
        return 2
    if argv[0] == '--replay':
        return do_replay(argv[1] if os.path.isabs(argv[1]) else os.path.join(VERIF, argv[1]))
    if argv[0] == 'selftest':
        import selftest
        return selftest.run(argv[1:])
    prop = argv[0]
    tier = os.environ.get('VERIF_TIER', 'quick')
    if '--tier' in argv:
        tier = argv[argv.index('--tier') + 1]
    seed = int(os.environ.get('VERIF_SEED', '0') or 0)
    if prop not in checks.PROPS:
        log('unknown property %s' % prop)
        return 2
    try:
        return run_property(prop, tier, seed)
    except Inconclusive as e:
        log('INCONCLUSIVE: %s' % e)
        return 2
