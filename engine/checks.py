"""Property -> obligations table, check-id ownership, and tier parameters."""
from runner import Ob, LIBC_BOUNDS

# --------------------------------------------------------------------------------------- check ids
# id -> (properties the id witnesses, meaning).  A property's check evaluates only the ids it owns
# (plus the engine-level classes listed in ENGINE_CLASSES below).
IDS = {}


MEANING = {}   # (property, id) -> what the failing check means for that property


def ids(props, table):
    for i, meaning in table.items():
        IDS[i] = (IDS.get(i, (set(), ''))[0] | set(props.split()), meaning or IDS.get(i, (set(), ''))[1])
        if meaning:
            for p_ in props.split():
                MEANING[(p_, i)] = meaning


def meaning(prop, i, default=''):
    return MEANING.get((prop, i)) or IDS.get(i, (None, default))[1] or default


ids('C03', {100: 'pre-state', 201: 'len', 202: 'count', 203: 'multiplicity', 204: 'lookup', 205: 'is_empty', 206: 'capacity', 207: 'value', 208: 'identity', 302: 'ledger', 901: 'double drop', 903: 'dead compare', 904: 'dead yield', 905: 'dead borrow', 211: '', 212: '', 213: '', 214: '', 215: ''})
ids('C01 C05 C07', {100: 'pre-state construction: insert of a fresh key returned Some'})
ids('C01 C07 C05', {201: 'len() differs from the model', 202: 'iteration count differs from the model',
                    203: 'a key is yielded a wrong number of times', 204: 'lookup differs from the model',
                    205: 'is_empty() inconsistent with the model', 206: 'capacity()/len() bound', 207: 'yielded value differs from the model'})
ids('C12 C02', {208: 'stored key/value object is not the expected one (serial)'})
ids('C05', {211: 'iteration count != len()', 212: 'a key is yielded twice', 213: 'is_empty() != (len()==0)',
            214: 'len() > capacity()', 215: 'a yielded key does not look up to its yielded value'})
ids('C02', {301: 'more destructions than creations', 302: 'an element was leaked or destroyed twice (dropped != created)',
            901: 'drop of a non-live object (double drop / drop of uninitialised slot)', 902: 'clone of a non-live object',
            903: 'comparison of a non-live object', 904: 'iteration yielded a non-live object', 905: 'borrow of a non-live object'})
ids('C07', {482: 'cleared set not reusable', 491: 'drain: yielded elements', 492: 'drain: count'})
ids('C01', {1102: 'entry().or_insert value', 1501: 'clone contents', 1502: 'clone != original', 811: 'contents differ from the model'})
ids('C01', {401: 'insert: return value', 411: 'insert_key_value: return value', 421: 'checked_insert: outer Option',
            422: 'checked_insert: inner value', 431: 'get', 432: 'get_mut', 433: 'get_key_value', 434: 'contains_key',
            435: 'lookup by borrowed form disagrees with lookup by key', 436: 'write through get_mut not observed',
            441: 'Index: value/address', 442: 'Index on an absent key did not panic', 443: 'Index on a present key panicked',
            444: 'IndexMut write not observed', 451: 'remove: return value', 461: 'remove_entry: return value',
            471: 'retain predicate saw a non-live pair', 472: 'retain called the predicate fewer times than entries',
            473: 'retain: mutation through &mut V lost', 482: 'cleared map not reusable', 491: 'drain: yielded pairs', 492: 'drain: count'})
ids('C02', {714: 'rejected argument not destroyed', 715: 'destruction/creation count off after the rejection', 201: '', 202: '', 203: '', 211: '', 214: ''})
ids('C02 C12', {402: 'insert: returned object is not the old value', 403: 'insert: supplied duplicate key not destroyed / new key not kept',
                412: 'insert_key_value: returned objects are not the old key/value', 413: 'insert_key_value: supplied key not stored',
                423: 'checked_insert: arguments not destroyed exactly once', 452: 'remove: returned object is not the stored value',
                453: 'remove: stored key not destroyed', 462: 'remove_entry: returned objects are not the stored ones',
                481: 'clear: not every stored object destroyed'})
ids('C08', {606: 'iterator not fused'})
ids('C09 C10', {601: 'ExactSizeIterator::len() wrong', 602: 'size_hint() wrong', 603: 'more items than capacity', 604: 'number of yielded items',
                605: 'a stored entry was not yielded exactly once', 606: 'iterator not fused / not empty after the end', 607: 'second traversal differs',
                608: 'cloned iterator diverges', 609: 'count() wrong', 610: 'write through iter_mut/values_mut lost',
                611: 'yielded pair is not a stored association'})
ids('C09 C10', {621: 'nth() differs from stepping', 622: 'last() differs from stepping', 623: 'count() differs from stepping', 624: 'fold()/for_each() differ from stepping', 625: 'iterator state after a provided method differs from stepping'})
ids('C10', {302: 'an element handed out by a consuming iterator was leaked or destroyed twice', 901: 'double drop of an element a consuming iterator handed out'})
ids('C10', {612: 'container not empty after drain', 613: 'container not reusable after drain'})
ids('C10', {301: 'an element a consuming iterator or drain handed out (or left behind) was destroyed again', 731: 'container not usable after an interrupted drain',
            211: '', 212: '', 213: '', 214: '', 215: '', 904: ''})
ids('C02 C10', {614: 'elements not released exactly once when a consuming iterator is dropped / excess release when forgotten'})
ids('C07', {1502: 'clone / subset relations of a set with itself', 601: 'iterator len', 604: 'iteration count', 811: 'contents differ from the model', 206: 'capacity'})
ids('C07', {701: 'Set::insert return', 702: 'Set::replace return', 703: 'Set::contains', 704: 'Set::get', 705: 'Set::remove return',
            706: 'Set::take return', 707: 'Set::retain predicate saw a non-live element', 708: 'Extend did not pull the source exactly once per item'})
ids('C12 C02', {709: 'Set: stored/returned element object identity'})
ids('C08', {801: 'size_hint does not bracket the number of items still to come', 802: 'set algebra: element multiplicity differs from the mathematical result',
            803: 'set algebra: number of yielded items', 804: 'yielded reference does not point into the left operand', 805: 'fold differs from stepping with next',
            806: 'count() differs from stepping', 807: 'is_subset', 808: 'is_superset', 809: 'is_disjoint', 810: 'operator - result'})
ids('C08', {812: 'nth()/last()/min()/max() of a lazy set iterator differ from stepping'})
ids('C08 C14', {811: 'operand modified'})
ids('C14', {820: 'equality differs from extensional equality', 821: 'equality not symmetric', 822: 'equality not reflexive'})
ids('C11', {711: '', 712: '', 713: '', 714: '', 715: '', 716: '', 720: ''})
ids('C03', {711: 'adding an absent key to a full container did not panic', 712: 'not exactly one panic entry point was hit',
            713: 'memory outside the container (canary) was overwritten', 714: 'rejected argument not destroyed', 715: 'destruction/creation count off after the rejection',
            716: 'container not usable after the rejected insertion', 717: 'checked_insert on a full map did not return None', 718: 'value replacement on a full container failed',
            719: 'From<[_;N]> panicked', 720: 'capacity() != N or len() > capacity()'})
ids('C04', {731: 'container not usable after a panic in user code', 732: 'operation result inconsistent', 301: 'more destructions than creations',
            302: 'ledger unbalanced after a run without panic', 901: 'double drop / drop of an uninitialised slot', 902: 'clone of dead data', 903: 'comparison of dead data',
            904: 'iteration yields dead data', 905: 'borrow of dead data', 211: 'iteration count != len() after a panic', 212: 'duplicate key after a panic',
            213: 'is_empty', 214: 'len() > capacity() after a panic', 215: 'yielded key does not look up', 612: 'map not empty after drain', 100: 'pre-state',
            201: '', 202: '', 203: '', 204: '', 205: '', 206: '', 207: '', 208: ''})
ids('C05', {733: 'container-raised panic expected/unexpected', 201: '', 202: '', 203: '', 204: '', 205: '', 206: '', 207: ''})
ids('C11', {1101: 'entry kind (Occupied/Vacant) does not match presence', 1102: 'reference returned by or_insert* is not the value place of the key',
            1103: 'closure / Default call count', 1106: 'OccupiedEntry get/get_mut/insert/into_mut', 1107: 'OccupiedEntry remove/remove_entry', 1108: 'VacantEntry::insert',
            100: '', 201: '', 202: '', 203: '', 204: '', 205: '', 206: '', 207: ''})
ids('C11', {208: 'entry API: the stored key/value object is not the one the direct operation would keep', 302: 'entry API: an element was leaked or destroyed twice',
            901: 'entry API: an element still stored was destroyed', 903: '', 904: 'entry API: a destroyed element is still stored', 905: ''})
ids('C15', {901: 'clone: an element was destroyed twice (the copies share an element)', 903: '', 905: ''})
ids('C11 C12 C02', {1104: 'entry API: fate of the supplied key/value objects', 1105: 'entry API: key()/into_key() identity'})
ids('C13', {1301: 'get_disjoint_mut position differs from get_mut', 1302: 'two returned mutable references alias', 1303: 'returned reference outside the map',
             1304: 'write through a returned reference not observed', 1305: 'equal and present keys did not panic', 1306: 'pairwise different keys panicked', 811: 'map changed', 201: ''})
ids('C15', {211: '', 212: '', 213: '', 214: '', 215: ''})
ids('C15', {1501: 'clone contents', 1502: 'clone != original', 1503: 'an element was not cloned exactly once / clone does not hold the fresh objects',
            1504: 'clone not independent of the original', 201: '', 202: '', 203: '', 204: '', 205: '', 206: '', 207: '', 208: '', 302: '', 904: ''})
ids('C16', {1601: 'bulk construction differs from one-by-one insertion', 1602: 'source not consumed exactly once, front to back', 1603: 'overflow panic iff more than N distinct keys',
            201: '', 202: '', 203: '', 204: '', 205: '', 206: '', 207: '', 208: '', 708: ''})
ids('C18', {1801: 'insert_unchecked differs from insert', 1802: 'get_disjoint_unchecked_mut differs from get_disjoint_mut', 1302: '', 1303: '', 811: '',
            201: '', 202: '', 203: '', 204: '', 205: '', 206: '', 207: '', 208: '', 211: '', 212: '', 213: '', 214: '', 215: '', 302: '', 901: '', 903: '', 904: '', 905: ''})
ids('C18', {301: 'insert_unchecked: an element was destroyed twice (panicking destructor of the redundant key)', 731: '', 732: ''})
ids('C17', {301: 'more destructions than creations under inconsistent Eq'})
ids('C17', {1701: 'len() > capacity() under inconsistent Eq', 1702: 'iteration count != len() under inconsistent Eq', 1703: 'aliasing mutable references',
             1704: 'memory outside the container (canary) overwritten', 1705: 'unexpected panic', 302: 'an element was leaked or destroyed twice', 901: 'double drop',
             902: 'clone of dead data', 903: 'comparison of dead data', 904: 'dead/out-of-container data handed out', 905: 'borrow of dead data'})
ids('C02', {611: '', 605: '', 1303: ''})
ids('C12', {433: 'get_key_value exposes a key object that is not the stored one', 611: 'iteration exposes a key object that is not the stored one', 605: 'consuming iteration exposes objects that are not the stored ones', 207: '', 423: '', 402: '', 452: ''})
ids('C19 C06', {1901: 'rendered length differs', 1902: 'rendered bytes differ', 1903: 'formatting returned Err', 1904: 'container changed by formatting', 202: ''})
ids('C20', {2001: 'announced length != len()', 2002: 'number of emitted entries != len()', 2003: 'decoded container differs from the original',
            2004: 'serialisation or deserialisation failed', 811: 'container changed / decoded contents differ', 100: ''})
ids('C06', {1501: '', 1502: '', 451: '', 206: '', 100: ''})
ids('C06', {804: 'set-algebra item outside the left operand', 1303: 'get_disjoint_mut reference outside the map', 501: 'returned reference points outside the container value'})

# engine-level result classes that count for every property whose harness shows them
ENGINE_ALWAYS = {'ESCAPE', 'ABORT'}
# memory-safety classes (CBMC pointer/bounds checks, llvm unreachable/assume): owned by these properties
MEM_PROPS = {'C02', 'C03', 'C04', 'C05', 'C17', 'C18'}

# --------------------------------------------------------------------------------------- families
# family -> dict(group, arity, quick=[param tuples], deep=[param tuples], profiles)
FAM = {}


def fam(names, group, quick, deep, profiles=('rel',), dprofiles=None, unwind=None, lto=False, feats=(), no_dbg=False):
    for n in names.split():
        FAM[n] = dict(group=group, quick=[tuple(x) if isinstance(x, (list, tuple)) else (x,) for x in quick],
                      deep=[tuple(x) if isinstance(x, (list, tuple)) else (x,) for x in deep],
                      profiles=profiles, dprofiles=dprofiles or profiles, unwind=unwind, lto=lto, feats=tuple(feats), no_dbg=no_dbg)


fam('c01_insert c01_insert_kv', 'g_map', [1, 2, 3], [4, 5], profiles=('rel', 'dbg'))   # N=0: precondition unsatisfiable (overflow is C03)
fam('c01_checked_insert c01_remove c01_remove_entry c01_index', 'g_map', [0, 1, 2, 3], [4, 5], profiles=('rel', 'dbg'))
fam('c01_lookup c01_retain c01_clear c01_drain_all', 'g_map', [0, 1, 2, 3], [4, 5], dprofiles=('rel', 'dbg'))

fam('c09_iter c09_keys c09_values c09_iter_mut c09_values_mut c09_set_iter', 'g_iter', [0, 1, 2, 3], [4, 5], dprofiles=('rel', 'dbg'))
fam('c09_defaults', 'g_iter', [0, 2], [])
# zero-sized key and value; second parameter: iterator kind
fam('c09_zst c10_zst', 'g_iter', [(n, o) for n in (1, 2) for o in range(6)], [(n, o) for n in (0, 3) for o in range(6)], unwind=lambda c: c[0] + 3)
# zero-sized elements with a destructor; second parameter: which destroying path
fam('c02_zst_drops', 'g_iter', [(n, w) for n in (1, 2) for w in range(10)], [(3, w) for w in range(10)], unwind=lambda c: c[0] + 3)
fam('c09_provided c09_set_provided c10_set_provided', 'g_iter', [1, 2, 3], [4])
fam('c10_drain_methods c10_set_drain_methods', 'g_iter', [1, 2, 3], [4, 5])
# second parameter: 0 into_iter, 1 into_keys, 2 into_values, 3 drain
fam('c10_provided', 'g_iter', [(1, 0), (2, 0), (3, 0), (1, 1), (2, 1), (1, 2), (2, 2)], [(1, 3), (2, 3), (3, 1), (3, 2), (4, 0)], unwind=lambda c: c[0] + 2)
fam('c10_into_iter c10_into_keys c10_into_values c10_set_into_iter c10_drain c10_set_drain', 'g_iter', [0, 1, 2, 3], [4, 5], dprofiles=('rel', 'dbg'))

fam('c07_insert c07_replace', 'g_set', [1, 2, 3], [4, 5], dprofiles=('rel', 'dbg'))
fam('c07_lookup c07_remove c07_take c07_retain c07_clear c07_drain', 'g_set', [0, 1, 2, 3], [4, 5], dprofiles=('rel', 'dbg'))
fam('c07_extend c07_extend_ref', 'g_set', [(1, 2), (2, 3), (3, 3)], [(3, 4), (4, 4)])

Q8 = [(0, 0), (1, 1), (2, 2), (3, 3), (1, 3), (3, 1), (0, 2), (2, 0)]
D8 = [(4, 4), (4, 2), (2, 4)]
usum = None   # base unwind = max(params)+2; the harness loops over N+M items are deepened per loop
fam('c08_union c08_intersection c08_difference c08_predicates', 'g_alg', Q8, D8)
fam('c08_union_fold c08_intersection_fold c08_difference_fold', 'g_alg', Q8, D8)
# symmetric_difference chains two Difference iterators, each probing the other set: the (3,3) queries need 2-10 min -> thorough
QS = [c for c in Q8 if c != (3, 3)]
fam('c08_symdiff c08_symdiff_fold', 'g_alg', QS, [(3, 3), (4, 2), (2, 4)])
# third parameter: 0 union, 1 intersection, 2 difference, 3 symmetric_difference
_heavy, _light = [0, 1, 2, 3, 12, 13, 14, 15], [4, 5, 6, 7, 8, 9, 10, 11]   # union / symmetric difference are chains: smaller quick sizes
_mid = [0, 1, 2, 13]
fam('c08_provided', 'g_alg', [(2, 2, k) for k in _light] + [(1, 1, k) for k in _heavy] + [(2, 1, k) for k in _mid],
    [(3, 2, k) for k in _light] + [(1, 2, k) for k in _heavy] + [(2, 1, k) for k in _heavy if k not in _mid] + [(2, 2, k) for k in _mid],
    unwind=lambda c: max(c[0], c[1]) + 2)
fam('c08_sub', 'g_alg', Q8[:6], D8)
fam('c08_difference_ref', 'g_alg', [(1, 1), (2, 2), (3, 2), (2, 3)], [(3, 3), (4, 2)], unwind=lambda c: 9)
fam('c08_difference_ref_slices', 'g_alg', [(1, 1), (2, 1)], [], unwind=lambda c: 6)   # (2, 2): > 7 min, (2, 3): 19 min, (3, 2): > 20 min -> not registered
LIBC_BOUNDS['c08_difference_ref_slices'] = 5   # slices of at most 3 bytes
LIBC_BOUNDS['c01_lookup_unsized'] = 5
fam('c14_map c14_set', 'g_alg', Q8 + [(2, 3)], [(4, 4), (4, 1), (1, 4), (5, 5)])
fam('c14_partial', 'g_alg', [1, 2, 3], [4])

C03F = 'c03_insert c03_insert_kv c03_or_insert c03_or_insert_with c03_or_insert_with_key c03_vacant_insert c03_or_default c03_from_iter c03_set_insert c03_set_extend c03_checked_full c03_from_array'
fam(C03F, 'g_full', [0, 1, 2, 3], [4, 5], profiles=('rel', 'dbg'))
fam('c03_replace_full', 'g_full', [1, 2, 3], [4, 5], profiles=('rel', 'dbg'))
# second parameter = element shape: 0 (u8,()) zero-sized value, 1 (u8,[u64;3]) large value, 2 ((),u8) zero-sized key
fam('c03_shapes', 'g_full', [(n, 0) for n in (0, 1, 2, 3)] + [(n, 1) for n in (0, 1, 2, 3)] + [(0, 2), (1, 2), (2, 2)] + [(n, 3) for n in (0, 1, 2, 3)], [(4, 0), (5, 0), (4, 1), (5, 1)], profiles=('rel', 'dbg'), unwind=lambda c: c[0] + 3)

C04F1 = 'c04_clone c04_clear c04_retain c04_insert c04_remove c04_set_ops c04_drops c04_set_drops'
fam('c04_insert c04_remove c04_set_ops', 'g_panic', [0, 1, 2, 3], [4, 5], dprofiles=('rel', 'dbg'))
fam('c04_clone c04_clear c04_retain', 'g_panic', [1, 2, 3], [4, 5, 6], dprofiles=('rel', 'dbg'))   # N=0: no user callback is made
fam('c04_clone_from', 'g_panic', [1, 2], [3])
fam('c04_drops', 'g_panic', [1, 2, 3], [4, 5], dprofiles=('rel', 'dbg'))
fam('c04_set_drops', 'g_panic', [1, 2, 3], [4], dprofiles=('rel', 'dbg'))
fam('c04_lookup c04_entry c04_disjoint', 'g_panic', [1, 2, 3], [4, 5], dprofiles=('rel', 'dbg'))
# second parameter: 0 into_iter.for_each 1 into_keys.fold 2 into_values.for_each 3 into_iter.all 4 drain.for_each 5 drain.any
fam('c04_internal', 'g_panic', [(n, o) for n in (2, 3) for o in range(6)], [(4, o) for o in range(6)], unwind=lambda c: c[0] + 2)
fam('c04_set_internal', 'g_panic', [(n, o) for n in (2, 3) for o in range(2)], [(4, o) for o in range(2)], unwind=lambda c: c[0] + 2)
fam('c04_from_array', 'g_panic', [2, 3], [4, 5])
fam('c04_from_iter', 'g_panic', [(0, 2), (1, 2), (2, 3), (3, 4)], [(4, 5), (3, 5)])
fam('c04_set_extend', 'g_panic', [(1, 2), (2, 3), (3, 3)], [(4, 4)])
fam('c04_set_algebra', 'g_panic', [(1, 1), (2, 2), (3, 2)], [(3, 3), (4, 2)])
fam('c05_panics', 'g_panic', [0, 1, 2, 3], [4, 5], profiles=('rel', 'dbg'))

fam('c11_or', 'g_entry', [1, 2, 3], [4, 5], dprofiles=('rel', 'dbg'))
fam('c11_variants c11_key_and_modify', 'g_entry', [0, 1, 2, 3], [4, 5], dprofiles=('rel', 'dbg'))

# (2, 9), (2, 17), (2, 33): request arrays longer than 8 / 16 / 32 keys (a u8 / u16 / u32 bit set indexed by request position)
fam('c13_disjoint', 'g_misc', [(0, 0), (2, 0), (0, 2), (1, 1), (2, 1), (1, 2), (2, 2), (3, 2), (2, 3), (3, 3), (2, 9)], [(4, 3), (3, 4), (4, 4), (5, 2), (2, 17)], profiles=('rel', 'dbg'), unwind=lambda c: max(c) + 2 if c[1] <= 4 else 4)   # long request arrays: a low base bound (it also bounds recursion depth in libcore's sort), loops deepened individually
fam('c13_disjoint_tok', 'g_misc', [1, 2, 3], [4, 5])
fam('c15_clone c15_set_clone', 'g_misc', [0, 1, 2, 3], [4, 5], dprofiles=('rel', 'dbg'))
fam('c15_zst', 'g_misc', [1, 2, 3], [])   # zero-sized, never-equal keys
fam('c01_zst', 'g_map', [1, 2], [], unwind=lambda c: 5)
fam('c07_zst', 'g_set', [1, 2], [], unwind=lambda c: 5)
# N=4: the smallest array with two repeated keys whose later occurrences can be reordered before the first ones
fam('c16_from_array c16_set_from_array', 'g_misc', [0, 1, 2, 3, 4], [5], dprofiles=('rel', 'dbg'))
fam('c15_clone_nodrop', 'g_misc', [1, 2, 3], [4, 5], dprofiles=('rel', 'dbg'))
fam('c15_clone_from', 'g_misc', [1, 2, 3], [4])
# no_dbg: the opt-1 build keeps every memcpy of the 4 KiB value (SAT out of memory)
fam('c06_big', 'g_misc', [3], [], unwind=lambda c: 6, no_dbg=True)
fam('c16_from_iter', 'g_misc', [(0, 1), (1, 2), (2, 3), (3, 4), (2, 4)], [(3, 5), (4, 5)], profiles=('rel', 'dbg'))
fam('c16_set_from', 'g_misc', [(1, 2), (2, 3), (3, 4)], [(4, 5)])
fam('c18_insert_unchecked', 'g_misc', [1, 2, 3, 4], [5], profiles=('rel', 'dbg'))
fam('c18_disjoint_unchecked', 'g_misc', [(2, 0), (1, 1), (2, 2), (3, 2), (2, 3), (3, 3)], [(4, 3), (3, 4), (4, 4)], profiles=('rel', 'dbg'))

fam('c17_insert', 'g_liar', [0, 1, 2, 3], [4], profiles=('rel', 'dbg'))
fam('c17_remove c17_lookup', 'g_liar', [1, 2, 3], [4], profiles=('rel', 'dbg'))
fam('c17_disjoint', 'g_liar', [(1, 2), (2, 2), (3, 2), (2, 3), (3, 3)], [(4, 3), (4, 4)], profiles=('rel', 'dbg'))
# third parameter: 0 intersection, 1 union, 2 difference, 3 symmetric_difference collected into a Set<_, 1>
fam('c17_collect', 'g_liar', [(2, 1, 0), (2, 1, 1)], [(2, 1, 2), (2, 1, 3), (2, 2, 0), (3, 1, 0)], unwind=lambda c: 4)
fam('c17_build', 'g_liar', [(n, o) for n in (2, 3) for o in range(4)], [(4, o) for o in range(4)], unwind=lambda c: c[0] + 2)
fam('c17_two', 'g_liar', [], [1, 2, 3], dprofiles=('rel', 'dbg'))
fam('c17_set', 'g_liar', [(1, 1), (2, 1), (1, 2)], [(2, 2), (3, 2)])   # (2,2): 8 min

fam('c06_refs c06_refs_set', 'g_map', [1, 2, 3], [4])
fam('c01u_ops', 'g_map', [4, 6, 8], [10, 12])
fam('c07u_ops', 'g_set', [4, 6, 8], [10, 12])
fam('c01w_ops', 'g_map', [(18, 17), (18, 16)], [], unwind=lambda c: c[0] + 2)
fam('c07w_ops', 'g_set', [(18, 17), (18, 16)], [], unwind=lambda c: c[0] + 2)
fam('c01_lookup_unsized', 'g_map', [1, 2], [], unwind=lambda c: 6)
fam('c01_hist', 'g_map', [(2, 2)], [(2, 3), (3, 3), (3, 4)], unwind=lambda c: c[0] + 2)

# second/third parameter W selects the rendering ({} / {:?} / {:#?}) or the iterator kind: one per obligation
fam('c19_nested', 'g_fmt', [(1, 1), (1, 2)], [(2, 1), (2, 2)], lto=True, unwind=lambda c: 8)   # N=2: 4-5 min each
fam('c19_long', 'g_fmt', [(1, w) for w in range(5)], [], lto=True, unwind=lambda c: 8)   # N = 2 (two long pieces): the deepening queries need 9-11 GB -> not registered
fam('c06_fmt_specs', 'g_fmt', [(1, w) for w in range(5)], [(2, w) for w in range(5)], lto=True, unwind=lambda c: 8)
fam('c19_map c19_set', 'g_fmt', [(n, w) for n in (0, 1, 2) for w in (0, 1, 2)] + [(1, 3), (2, 3)], [(3, w) for w in (0, 1, 2, 3)], lto=True, unwind=lambda c: 8)   # w: 0 {} 1 {:?} 2 {:#?} 3 {:#}
fam('c19_map_iters', 'g_fmt', [(1, w) for w in range(9)] + [(2, 5)], [(n, w) for n in (2, 3) for w in range(9) if (n, w) != (2, 5)], lto=True, unwind=lambda c: 8)
fam('c19_zst', 'g_fmt', [(1, w) for w in range(12)], [(2, w) for w in range(12)], lto=True, unwind=lambda c: 8)   # zero-sized key and value
fam('c19_set_iters', 'g_fmt', [(1, 1, w) for w in range(3)], [(1, 1, 3)] + [(n, m, w) for (n, m) in ((2, 1), (2, 2)) for w in range(4)], lto=True, unwind=lambda c: 8)   # w=3 (symmetric_difference): 6 min -> thorough

fam('c20_tokens', 'g_serde', [(0, 0), (1, 1), (2, 2), (2, 3), (3, 3)], [], unwind=lambda c: 8)
fam('c20_zst', 'g_serde', [(1, 0), (1, 1), (2, 0), (2, 1)], [], unwind=lambda c: 12, no_dbg=True)   # zero-sized entries
fam('c20_value_de', 'g_serde', [(1, 1), (2, 2), (2, 3), (3, 3)], [], unwind=lambda c: 8)
# no_dbg: at opt-1 bincode's non-generic functions are not inlined into the harness crate's IR (body-less externals)
fam('c20_bincode_map c20_bincode_set', 'g_serde', [(0, 0), (1, 1), (2, 2), (3, 3), (2, 3), (1, 3)], [(4, 4), (3, 5)], unwind=lambda c: 12, no_dbg=True)

# --------------------------------------------------------------------------------------- properties
PROPS = {
    'C20': dict(fams='c20_bincode_map c20_bincode_set c20_value_de c20_tokens c20_zst'),
    'C19': dict(fams='c19_map c19_set c19_nested c19_map_iters c19_set_iters c19_zst c19_long'),
    'C02': dict(fams='c01_insert c01_insert_kv c01_checked_insert c01_lookup c01_remove c01_remove_entry c01_retain c01_clear c01_drain_all '
                     'c10_into_iter c10_into_keys c10_into_values c10_set_into_iter c10_drain c10_set_drain c10_provided c10_set_provided c10_drain_methods c10_set_drain_methods '
                     'c07_insert c07_replace c07_remove c07_take c07_retain c07_clear c07_drain c07_extend c11_or c11_variants c11_key_and_modify c16_from_iter c16_from_array c16_set_from_array c15_clone c15_set_clone c15_clone_from '
                     'c03_insert c03_insert_kv c03_or_insert c03_vacant_insert c03_set_insert c03_checked_full c03_from_iter c03_set_extend '
                     'c04_internal c04_set_internal c02_zst_drops'),   # rejected arguments destroyed exactly once
    'C12': dict(fams='c01_insert c01_insert_kv c01_checked_insert c01_lookup c01_remove_entry c03_replace_full c07_insert c07_replace c07_lookup c07_take '
                     'c09_iter c09_set_iter c10_into_iter c10_set_into_iter c11_or c11_variants c11_key_and_modify c16_from_iter c16_from_array'),
    'C06': dict(fams='c06_big c06_refs c06_refs_set c01_insert c01_lookup c01_remove c01_retain c01_clear c01_drain_all c09_iter c09_iter_mut c10_into_iter c10_drain '
                     'c07_insert c07_remove c07_lookup c08_union c08_intersection c08_difference c08_symdiff c08_sub c14_map c14_set c15_clone c16_from_iter c13_disjoint c06_fmt_specs c19_map c19_set c19_map_iters',
                fams_std='c06_big c06_fmt_specs c19_map c19_set c06_refs c01_insert c01_remove c15_clone c14_map c08_sub c10_drain',
                gate='nostd_build'),
    'C17': dict(fams='c17_insert c17_remove c17_lookup c17_disjoint c17_set c17_collect c17_two c17_build'),
    'C13': dict(fams='c13_disjoint c13_disjoint_tok'),
    'C15': dict(fams='c15_clone c15_set_clone c15_clone_nodrop c15_clone_from c15_zst c01_zst c07_zst'),
    'C16': dict(fams='c16_from_iter c16_from_array c16_set_from c16_set_from_array c07_extend c07_extend_ref'),
    'C18': dict(fams='c18_insert_unchecked c18_disjoint_unchecked c04_insert c01w_ops'),
    'C11': dict(fams='c11_or c11_variants c11_key_and_modify '
                     'c03_or_insert c03_or_insert_with c03_or_insert_with_key c03_vacant_insert c03_or_default'),   # full map: entry insertion must panic exactly like insert
    'C04': dict(fams=C04F1 + ' c04_clone_from c04_lookup c04_entry c04_disjoint c04_internal c04_set_internal c04_from_array c04_from_iter c04_set_extend c04_set_algebra'),
    'C05': dict(fams='c05_panics c01_insert c01_insert_kv c01_checked_insert c01_remove c01_remove_entry c01_retain c01_clear c01_drain_all c01_lookup c01_index '
                     'c07_insert c07_replace c07_remove c07_take c07_retain c10_drain '
                     'c03_insert c03_insert_kv c03_or_insert c03_or_insert_with c03_or_insert_with_key c03_vacant_insert c03_or_default c03_set_insert c03_from_iter c03_set_extend '
                     'c18_insert_unchecked c11_or c11_variants c15_clone c16_from_iter c16_from_array c16_set_from_array c16_set_from c01_hist c01_zst c07_zst'),   # every state-changing path ends in well_formed()/observe()
    'C03': dict(fams=C03F + ' c03_replace_full c03_shapes'),
    'C08': dict(fams='c08_union c08_intersection c08_difference c08_symdiff c08_union_fold c08_intersection_fold c08_difference_fold c08_symdiff_fold c08_provided c08_sub c08_difference_ref c08_difference_ref_slices c08_predicates'),
    'C14': dict(fams='c14_map c14_set c14_partial'),
    'C07': dict(fams='c07_zst c07u_ops c07w_ops c07_insert c07_replace c07_lookup c07_remove c07_take c07_retain c07_clear c07_drain c07_extend c07_extend_ref'),
    'C09': dict(fams='c09_iter c09_keys c09_values c09_iter_mut c09_values_mut c09_set_iter c09_defaults c09_provided c09_set_provided c09_zst'),
    'C10': dict(fams='c10_into_iter c10_into_keys c10_into_values c10_set_into_iter c10_drain c10_set_drain c10_provided c10_set_provided c10_drain_methods c10_set_drain_methods '
                     'c10_zst c02_zst_drops c04_internal c04_set_internal'),   # "each once" also when the closure driving for_each/fold panics
    'C01': dict(fams='c01_insert c01_insert_kv c01_checked_insert c01_lookup c01_index c01_remove c01_remove_entry c01_retain c01_clear c01_drain_all c10_drain c01_hist c01u_ops c01w_ops c01_lookup_unsized c01_zst '
                     'c03_insert c03_insert_kv c03_checked_full c03_replace_full'),   # a rejected insertion leaves exactly the previous associations
}


def obligations(prop, tier):
    obs = []
    deep = tier == 'thorough'
    _add(obs, PROPS[prop]['fams'].split(), deep, ())
    # the same families once more with micromap's `std` feature on (C06: "std feature on and off")
    _add(obs, PROPS[prop].get('fams_std', '').split(), deep, ('mm_std',))
    return obs


def _add(obs, fams, deep, extra_feats):
    for f in fams:
        d = FAM[f]
        caps = d['quick'] + (d['deep'] if deep else [])
        plan = [(prof, c) for prof in (d['dprofiles'] if deep else d['profiles']) for c in caps]
        # quick tier: families that otherwise run in the release profile only get ONE small capacity in the debug-assertions
        # profile as well (debug_assert! and overflow checks are different code); fat-LTO families are exempt (cost)
        if not deep and 'dbg' not in d['profiles'] and not d['lto'] and not d['no_dbg'] and d['quick'] and not extra_feats:
            small = [c for c in d['quick'] if max(c) >= 1]
            if small:
                plan.append(('dbg', small[0] if max(small[0]) >= 2 or len(small) == 1 else small[1] if len(small) > 1 else small[0]))
        for prof, c in plan:
            if True:
                h = f + ''.join('_%d' % x for x in c)
                u = d['unwind'](c) if callable(d['unwind']) else d['unwind']
                obs.append(Ob(h, d['group'], profile=prof, deep=deep, family=f, unwind=u, lto=d['lto'], feats=d['feats'] + tuple(extra_feats)))


def relevant(prop, fail):
    """does a failing CBMC property count as a violation of `prop`?"""
    cls, i = fail['cls'], fail['id']
    if cls in ENGINE_ALWAYS:
        return True
    if cls == 'VF':
        if i == -1:
            return True   # id not statically known at the call site: attribute conservatively
        return prop in IDS.get(i, ({prop}, ''))[0]
    if cls in ('MEM', 'UB'):
        return prop in MEM_PROPS
    if cls == 'ALLOC':
        return prop == 'C06'
    return False


TIERS = {
    'quick': dict(timeout=420, mem_gb=8, max_unwind=14),   # the slowest quick queries take 2-3 min on an idle machine
    'thorough': dict(timeout=1200, mem_gb=12, max_unwind=30),
}
# the formatting harnesses compare 40-byte buffers
PROP_CAPS = {'C19': dict(max_unwind=164, timeout=600), 'C06': dict(max_unwind=44, timeout=600)}   # c19_long compares 160-byte buffers
NA = {}
