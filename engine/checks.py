"""Property -> obligations table, check-id ownership, and tier parameters."""
from runner import Ob

# --------------------------------------------------------------------------------------- check ids
# id -> (properties the id witnesses, meaning).  A property's check evaluates only the ids it owns
# (plus the engine-level classes listed in ENGINE_CLASSES below).
IDS = {}


def ids(props, table):
    for i, meaning in table.items():
        IDS[i] = (set(props.split()), meaning)


ids('C01 C05 C07', {100: 'pre-state construction: insert of a fresh key returned Some'})
ids('C01 C07 C05', {201: 'len() differs from the model', 202: 'iteration count differs from the model',
                    203: 'a key is yielded a wrong number of times', 204: 'lookup differs from the model',
                    205: 'is_empty() inconsistent with the model', 206: 'capacity()/len() bound', 207: 'yielded value differs from the model'})
ids('C12 C02', {208: 'stored key/value object is not the expected one (serial)'})
ids('C05', {211: 'iteration count != len()', 212: 'a key is yielded twice', 213: 'is_empty() != (len()==0)',
            214: 'len() > capacity()', 215: 'a yielded key does not look up to its yielded value'})
ids('C02', {301: 'more destructions than creations', 302: 'an element was leaked or destroyed twice (dropped != created)',
            901: 'drop of a non-live object (double drop / drop of uninitialised slot)', 902: 'clone of a non-live object',
            903: 'comparison of a non-live object', 904: 'iteration yielded a non-live object', 905: 'borrow of a non-live object'})
ids('C01', {401: 'insert: return value', 411: 'insert_key_value: return value', 421: 'checked_insert: outer Option',
            422: 'checked_insert: inner value', 431: 'get', 432: 'get_mut', 433: 'get_key_value', 434: 'contains_key',
            435: 'lookup by borrowed form disagrees with lookup by key', 436: 'write through get_mut not observed',
            441: 'Index: value/address', 442: 'Index on an absent key did not panic', 443: 'Index on a present key panicked',
            444: 'IndexMut write not observed', 451: 'remove: return value', 461: 'remove_entry: return value',
            471: 'retain predicate saw a non-live pair', 472: 'retain called the predicate fewer times than entries',
            473: 'retain: mutation through &mut V lost', 482: 'cleared map not reusable', 491: 'drain: yielded pairs', 492: 'drain: count'})
ids('C02 C12', {402: 'insert: returned object is not the old value', 403: 'insert: supplied duplicate key not destroyed / new key not kept',
                412: 'insert_key_value: returned objects are not the old key/value', 413: 'insert_key_value: supplied key not stored',
                423: 'checked_insert: arguments not destroyed exactly once', 452: 'remove: returned object is not the stored value',
                453: 'remove: stored key not destroyed', 462: 'remove_entry: returned objects are not the stored ones',
                481: 'clear: not every stored object destroyed'})
ids('C06', {501: 'returned reference points outside the container value'})

# engine-level result classes that count for every property whose harness shows them
ENGINE_ALWAYS = {'ESCAPE', 'ABORT'}
# memory-safety classes (CBMC pointer/bounds checks, llvm unreachable/assume): owned by these properties
MEM_PROPS = {'C02', 'C03', 'C04', 'C05', 'C17', 'C18'}

# --------------------------------------------------------------------------------------- families
# family -> dict(group, arity, quick=[param tuples], deep=[param tuples], profiles)
FAM = {}


def fam(names, group, quick, deep, profiles=('rel',), dprofiles=None, unwind=None):
    for n in names.split():
        FAM[n] = dict(group=group, quick=[tuple(x) if isinstance(x, (list, tuple)) else (x,) for x in quick],
                      deep=[tuple(x) if isinstance(x, (list, tuple)) else (x,) for x in deep],
                      profiles=profiles, dprofiles=dprofiles or profiles, unwind=unwind)


fam('c01_insert c01_insert_kv', 'g_map', [1, 2, 3], [4, 5], profiles=('rel', 'dbg'))   # N=0: precondition unsatisfiable (overflow is C03)
fam('c01_checked_insert c01_remove c01_remove_entry c01_index', 'g_map', [0, 1, 2, 3], [4, 5], profiles=('rel', 'dbg'))
fam('c01_lookup c01_retain c01_clear c01_drain_all', 'g_map', [0, 1, 2, 3], [4, 5], dprofiles=('rel', 'dbg'))

# --------------------------------------------------------------------------------------- properties
PROPS = {
    'C01': dict(fams='c01_insert c01_insert_kv c01_checked_insert c01_lookup c01_index c01_remove c01_remove_entry c01_retain c01_clear c01_drain_all'),
}


def obligations(prop, tier):
    obs = []
    deep = tier == 'thorough'
    for f in PROPS[prop]['fams'].split():
        d = FAM[f]
        caps = d['quick'] + (d['deep'] if deep else [])
        for prof in (d['dprofiles'] if deep else d['profiles']):
            for c in caps:
                h = f + ''.join('_%d' % x for x in c)
                obs.append(Ob(h, d['group'], profile=prof, deep=deep, family=f, unwind=d['unwind']))
    return obs


def relevant(prop, fail):
    """does a failing CBMC property count as a violation of `prop`?"""
    cls, i = fail['cls'], fail['id']
    if cls in ENGINE_ALWAYS:
        return True
    if cls == 'VF':
        if i == -1:
            return True   # id not statically known at the call site: attribute conservatively
        return prop in IDS.get(i, ({prop}, ''))[0]
    if cls in ('MEM', 'UB'):
        return prop in MEM_PROPS
    if cls == 'ALLOC':
        return prop == 'C06'
    return False


TIERS = {
    'quick': dict(timeout=240, mem_gb=8, max_unwind=14),
    'thorough': dict(timeout=1200, mem_gb=12, max_unwind=30),
}
NA = {}
