"""Engine L runner: build IR from /repo's working tree, translate per entry, decide with CBMC,
classify results, replay counterexamples natively, write evidence."""
import concurrent.futures as cf
import glob
import hashlib
import json
import os
import re
import resource
import shutil
import subprocess
import sys
import time

HERE = os.path.dirname(os.path.abspath(__file__))
VERIF = os.path.dirname(HERE)
BUILD = os.path.join(VERIF, '.build')
HARNESS = os.path.join(VERIF, 'harness')
REPO = os.environ.get('VERIF_REPO', '/repo')
if os.path.realpath(REPO) != '/repo':
    # background / scratch runs against a snapshot of the repository: a private copy of the harness crate whose
    # path dependency points at the snapshot (MANIFEST commands never set VERIF_REPO: they check /repo itself)
    _h = os.path.join(BUILD, 'harness-' + hashlib.sha1(os.path.realpath(REPO).encode()).hexdigest()[:8])
    if os.path.isdir(_h):
        shutil.rmtree(_h)
    shutil.copytree(HARNESS, _h, ignore=shutil.ignore_patterns('target'))
    _t = open(os.path.join(_h, 'Cargo.toml')).read().replace('path = "/repo"', 'path = "%s"' % os.path.realpath(REPO))
    open(os.path.join(_h, 'Cargo.toml'), 'w').write(_t)
    HARNESS = _h
    BUILD = os.path.join(BUILD, 'alt-' + os.path.basename(_h))
sys.path.insert(0, HERE)
import ll2c  # noqa: E402

ENV = dict(os.environ, CARGO_NET_OFFLINE='true')
ENV.pop('RUSTFLAGS', None)
NOVEC = '-C no-vectorize-slp -C no-vectorize-loops'
# the libc models in the prelude loop over a byte count: their bound is the largest object compared (generous)
CBMC_BASE = ['--no-standard-checks', '--bounds-check', '--pointer-check', '--unwinding-assertions',
             '--unwindset', 'vf_havoc_c.0:1100,vf_libc_bcmp.0:130,vf_libc_memcmp.0:130', '--sat-solver', 'cadical', '--object-bits', '10', '--json-ui']
SLICE = ['--slice-formula']   # cone-of-influence reduction; not used for trace runs (the replay log must stay in the formula)
JOBS = int(os.environ.get('VERIF_JOBS', '16'))
RUN_TAG = 'run'   # set by the driver to the property id
LIBC_BOUNDS = {}   # harness family -> unwinding bound of the memcmp/bcmp models (default 130); filled by checks.py


class Inconclusive(Exception):
    """machinery could not decide (build error, unsupported IR, time-out, non-reproducing cex): exit 2"""


def log(*a):
    print(*a, flush=True)


# ----------------------------------------------------------------------------------------- build
def cargo(args, target, rustflags=None, cwd=HARNESS, timeout=1800, extra_env=None):
    env = dict(ENV, CARGO_TARGET_DIR=os.path.join(BUILD, target))
    env.update(extra_env or {})
    if rustflags:
        env['RUSTFLAGS'] = rustflags
    p = subprocess.run(['cargo'] + args, cwd=cwd, env=env, stdout=subprocess.PIPE, stderr=subprocess.STDOUT,
                       text=True, timeout=timeout)
    return p.returncode, p.stdout


_ir_cache = {}


def build_ir(profile, features, lto=False, opt=None):
    """profile in {'rel','dbg'}; returns (path of .ll, build seconds).  Always invokes cargo: the
    fingerprint of the path dependency /repo decides whether anything is recompiled."""
    key = (profile, tuple(sorted(features)), lto, opt)
    if key in _ir_cache:
        return _ir_cache[key]
    t0 = time.time()
    # one target dir per property check (RUN_TAG): concurrent checks never touch each other's .ll files
    target = 'L-%s%s%s-%s' % (profile, '-lto' if lto else '', '-o%s' % opt if opt else '', RUN_TAG)
    prof = ['--release'] if profile == 'rel' else ['--profile', 'dbg']
    pdir = 'release' if profile == 'rel' else 'dbg'
    feats = ','.join(['cbmc'] + sorted(features) + (['lto_std'] if lto else []))
    deps = os.path.join(BUILD, target, pdir, 'deps')
    for f in glob.glob(os.path.join(deps, 'vh-*.ll')):
        os.remove(f)
    # force re-emission of the harness crate itself (cheap) so the .ll we pick up is from this run
    os.utime(os.path.join(HARNESS, 'src', 'lib.rs'))
    args = ['rustc', '--offline', '--lib'] + prof + ['--features', feats, '--', '--emit=llvm-ir']
    if lto:
        args = ['rustc', '--offline', '--lib', '--crate-type', 'staticlib'] + prof + ['--features', feats, '--', '--emit=llvm-ir']
    lto_env = {'CARGO_PROFILE_RELEASE_LTO': 'fat', 'CARGO_PROFILE_DBG_LTO': 'fat'} if lto else {}
    if opt:
        lto_env['CARGO_PROFILE_RELEASE_OPT_LEVEL' if profile == 'rel' else 'CARGO_PROFILE_DBG_OPT_LEVEL'] = str(opt)
    rc, out = cargo(args, target, rustflags=NOVEC, extra_env=lto_env)
    if rc != 0:
        raise Inconclusive('cargo build of the harness crate failed (profile %s, features %s):\n%s' % (profile, feats, out[-3000:]))
    lls = glob.glob(os.path.join(deps, 'vh-*.ll'))
    if len(lls) != 1:
        raise Inconclusive('expected exactly one vh-*.ll in %s, found %d' % (deps, len(lls)))
    r = (lls[0], time.time() - t0)
    _ir_cache[key] = r
    return r


_tr_cache = {}


def translator(path):
    if path not in _tr_cache:
        _tr_cache[path] = ll2c.Translator(open(path).read())
    return _tr_cache[path]


PRELUDE_EXTERNS = None


def prelude_externs():
    global PRELUDE_EXTERNS
    if PRELUDE_EXTERNS is None:
        src = open(os.path.join(HERE, 'prelude.c')).read()
        PRELUDE_EXTERNS = set(re.findall(r'^[A-Za-z_][A-Za-z0-9_ \*]*?\b([A-Za-z_][A-Za-z0-9_]*)\s*\([^;{]*\)\s*\{', src, re.M))
        PRELUDE_EXTERNS |= {'memcpy', 'memmove', 'memset'}
    return PRELUDE_EXTERNS


# ----------------------------------------------------------------------------------------- cbmc
def _limits(mem_gb):
    def f():
        b = int(mem_gb * (1 << 30))
        resource.setrlimit(resource.RLIMIT_AS, (b, b))
        os.setsid()
    return f


def run_cbmc(cfile, c_entry, unwind, defs=(), extra=(), timeout=300, mem_gb=8, slice_=True, checks=True):
    base = list(CBMC_BASE)
    # families that compare short slices at many call sites: a smaller bound for the libc byte loops (still guarded by their unwinding assertions)
    fam_ = re.sub(r'(_\d+)+\.c$', '', os.path.basename(cfile))[2:]
    if fam_ in LIBC_BOUNDS:
        j = base.index('--unwindset')
        base[j + 1] = base[j + 1].replace(':130', ':%d' % LIBC_BOUNDS[fam_])
    if not checks:
        base = [x for x in base if x not in ('--bounds-check', '--pointer-check')]
    extra = list(extra)
    if '--unwindset' in extra:   # merge with the havoc loop bound (cbmc takes one --unwindset)
        i = extra.index('--unwindset')
        j = base.index('--unwindset')
        base[j + 1] = base[j + 1] + ',' + extra[i + 1]
        del extra[i:i + 2]
    cmd = ['cbmc', cfile, os.path.join(HERE, 'prelude.c'), '--function', c_entry, '--unwind', str(unwind)] + base + (SLICE if slice_ else [])
    for d in defs:
        cmd.append('-D' + d)
    cmd += list(extra)
    t0 = time.time()
    sh = 'ulimit -v %d; exec "$@"' % int(mem_gb * (1 << 20))
    try:
        p = subprocess.run(['bash', '-c', sh, 'cbmc'] + cmd, stdout=subprocess.PIPE, stderr=subprocess.PIPE, text=True,
                           timeout=timeout, start_new_session=True)
    except subprocess.TimeoutExpired:
        return {'status': 'timeout', 'secs': time.time() - t0, 'cmd': ' '.join(cmd)}
    if os.environ.get('VERIF_KEEP_JSON'):
        open(cfile + '.%d.json' % unwind, 'w').write(p.stdout)
    secs = time.time() - t0
    out = p.stdout
    try:
        doc = json.loads(out)
    except Exception:
        return {'status': 'error', 'secs': secs, 'cmd': ' '.join(cmd), 'detail': (out[-1500:] + p.stderr[-1500:])}
    res = None
    msgs = []
    for item in doc:
        if 'result' in item:
            res = item['result']
        if item.get('messageType') in ('ERROR', 'WARNING'):
            msgs.append(item.get('messageText', ''))
    nobody = [m for m in msgs if 'no body for' in m]
    stats = {}
    for item in doc:
        t = item.get('messageText', '')
        m = re.search(r'(\d+) variables, (\d+) clauses', t)
        if m:
            stats = {'variables': int(m.group(1)), 'clauses': int(m.group(2))}
    if res is None:
        return {'status': 'error', 'secs': secs, 'cmd': ' '.join(cmd), 'detail': '\n'.join(msgs)[-3000:] or out[-1500:]}
    return {'status': 'done', 'secs': secs, 'results': res, 'nobody': nobody, 'stats': stats, 'cmd': ' '.join(cmd),
            'maxrss_kb': 0}


def classify(desc):
    """CBMC property description -> (class, id)"""
    if desc.startswith('VF:'):
        t = desc[3:]
        return ('VF', int(t)) if t.isdigit() else ('VF', -1)
    if desc.startswith('REACH:'):
        return ('REACH', int(desc[6:]))
    if desc.startswith('unwinding assertion') or 'recursion unwinding' in desc:
        return ('UNWIND', 0)
    if desc.startswith('ESCAPE:'):
        return ('ESCAPE', 0)
    if desc.startswith('ABORT:'):
        return ('ABORT', 0)
    if desc.startswith('ALLOC:'):
        return ('ALLOC', 0)
    if desc.startswith('UB:'):
        return ('UB', 0)
    return ('MEM', 0)   # pointer / bounds / memmove preconditions


def extract_vector(trace):
    """replay vector = the values passed to the logger lg(v), in call order (robust under --slice-formula: the array
    writes may be sliced away, the accumulator keeps every call in the cone); falls back to the contents of __vf_log"""
    seq = []
    for st in trace:
        # every drawing primitive assigns its fresh value to a local `v` exactly once per call before logging it
        if st.get('stepType') == 'assignment' and st.get('lhs') == 'v' and st.get('assignmentType') != 'actual-parameter' \
                and 'data' in st.get('value', {}) \
                and st.get('sourceLocation', {}).get('function') in ('vf_nondet_u8', 'vf_nondet_u16', 'vf_nondet_usize', 'vf_havoc_c'):
            seq.append(_num(st['value']))
    if seq:
        return seq[:1024]
    vals, n = {}, 0
    for st in trace:
        if st.get('stepType') != 'assignment':
            continue
        lhs = st.get('lhs', '')
        m = re.fullmatch(r'__vf_log\[(\d+)[a-zA-Z]*\]', lhs)
        v = st.get('value', {})
        if m and 'data' in v:
            vals[int(m.group(1))] = _num(v)
        elif lhs == '__vf_n' and 'data' in v:
            n = _num(v)
        elif lhs == '__vf_log' and 'elements' in v:
            for e in v['elements']:
                try:
                    vals[int(e['index'])] = _num(e['value'])
                except Exception:
                    pass
    return [vals.get(i, 0) for i in range(min(n, 1024))]


def _num(v):
    b = v.get('binary')
    if b and set(b) <= {'0', '1'}:
        return int(b, 2)
    d = v.get('data', '0')
    d = re.sub(r'[uUlL]+$', '', d)
    try:
        return int(d, 0) & ((1 << 64) - 1)
    except Exception:
        return 0


# ----------------------------------------------------------------------------------------- obligations
class Ob:
    """one proof obligation = one harness entry in one profile"""

    def __init__(self, harness, group, profile='rel', unwind=None, lto=False, deep=False, family=None, feats=()):
        self.harness, self.group, self.profile, self.lto, self.deep = harness, group, profile, lto, deep
        self.feats = tuple(feats)
        nums = [int(x) for x in re.findall(r'_(\d+)', harness[len(family):] if family else harness)]
        self.params = nums
        self.family = family or re.sub(r'(_\d+)+$', '', harness)
        self.unwind = unwind if unwind is not None else (max(nums) if nums else 3) + 2
        self.name = '%s@%s%s' % (harness, profile, ''.join('+' + f for f in feats))

    def features(self):
        return tuple(sorted([self.group] + (['deep'] if self.deep else []) + list(self.feats)))

    def cdir(self):
        # per property (RUN_TAG): two checks running at the same time never write the same C file
        d = os.path.join(BUILD, 'c', RUN_TAG, self.profile + ('-lto' if self.lto else '') + ''.join('-' + f for f in self.feats))
        os.makedirs(d, exist_ok=True)
        return d


def prepare(ob, T):
    """translate one obligation to a C file (single-threaded: the translator caches are shared)"""
    entry = 'h_' + ob.harness
    try:
        c, info = T.emit(entry)
    except ll2c.TranslateError as e:
        return {'ob': ob.name, 'harness': ob.harness, 'family': ob.family, 'profile': ob.profile, 'verdict': 'inconclusive',
                'why': str(e), 'secs': 0}
    bad = [x for x in info['externs'] if x not in prelude_externs() and 'vf_libc_' + x not in prelude_externs()]
    if bad:
        return {'ob': ob.name, 'harness': ob.harness, 'family': ob.family, 'profile': ob.profile, 'verdict': 'inconclusive',
                'why': 'calls to body-less externals: %s' % bad, 'secs': 0}
    cfile = os.path.join(ob.cdir(), entry + '.c')
    with open(cfile, 'w') as f:
        f.write(c)
    return {'ob': ob.name, 'harness': ob.harness, 'family': ob.family, 'profile': ob.profile, 'group': ob.group, 'feats': list(ob.feats),
            'info': info, 'cfile': cfile, 'unwind': ob.unwind, 'params': ob.params}


def solve(res, caps):
    """decide one prepared obligation; never raises for solver outcomes"""
    if 'verdict' in res:
        return res
    t0 = time.time()
    info, cfile, unwind = res['info'], res['cfile'], res['unwind']
    caps = dict(caps, max_unwind=max([caps['max_unwind'], unwind + 6] + [p + 6 for p in res.get('params', [])]))   # wide-capacity families: the cap follows the capacity
    tries = []
    loopb = {}   # per-loop bounds found by deepening: "function.loopnr" -> bound

    def uset():
        return ['--unwindset', ','.join('%s:%d' % kv for kv in sorted(loopb.items()))] if loopb else []

    # phase 1: per-loop iterative deepening with the unwinding assertions only (cheap: no other property is
    # encoded).  Only loops whose unwinding assertion fails are deepened, so inner library loops keep the small bound.
    rounds = 0
    while True:
        r = run_cbmc(cfile, info['c_entry'], unwind, extra=['--no-assertions'] + uset(), timeout=caps['timeout'],
                     mem_gb=caps['mem_gb'], checks=False)
        tries.append(('deepen', dict(loopb), r['status'], round(r['secs'], 2)))
        if r['status'] != 'done':
            break   # let the main run report the problem
        bad = [p['property'] for p in r['results'] if p['status'] != 'SUCCESS' and classify(p['description'])[0] == 'UNWIND']
        if not bad:
            break
        rounds += 1
        grew = False
        for prop in bad:
            m = re.fullmatch(r'(.*)\.unwind\.(\d+)', prop)
            if not m:
                continue
            key = '%s.%s' % (m.group(1), m.group(2))
            if key.startswith(('vf_havoc_c.', 'vf_libc_')):
                continue   # prelude loops have their own fixed bounds (CBMC_BASE); a failure there is reported, not deepened
            cur = loopb.get(key, unwind)
            if cur < caps['max_unwind']:
                loopb[key] = min(caps['max_unwind'], max(cur + 2, cur * 2 if rounds > 1 else cur + 2))
                grew = True
        if not grew or rounds > 30:
            break
    res['loop_bounds'] = dict(loopb)
    while True:
        r = run_cbmc(cfile, info['c_entry'], unwind, defs=['VF_REACH'], extra=uset(), timeout=caps['timeout'], mem_gb=caps['mem_gb'])
        tries.append((unwind, r['status'], round(r['secs'], 2)))
        res['tries'] = tries
        res['secs'] = time.time() - t0
        res['cmd'] = r['cmd']
        if r['status'] != 'done':
            res['verdict'] = 'inconclusive'
            res['why'] = 'cbmc %s after %.0fs at unwind %d: %s' % (r['status'], r['secs'], unwind, r.get('detail', '')[:800])
            return res
        if r['nobody']:
            res['verdict'] = 'inconclusive'
            res['why'] = 'cbmc: %s' % r['nobody'][:3]
            return res
        props = [(p['property'], p['description'], p['status']) + classify(p['description']) for p in r['results']]
        unw_fail = [p for p in props if p[3] == 'UNWIND' and p[2] != 'SUCCESS']
        break
    res['unwind_max'] = max([unwind] + list(loopb.values()))
    fails = [p for p in props if p[2] != 'SUCCESS' and p[3] not in ('REACH', 'UNWIND')]
    reach_ok = sorted({p[4] for p in props if p[3] == 'REACH' and p[2] == 'FAILURE'})
    reach_all = sorted({p[4] for p in props if p[3] == 'REACH'})
    vacuous = [i for i in reach_all if i not in reach_ok]
    res.update({'unwind': res['unwind_max'], 'base_unwind': unwind, 'solver_secs': r['secs'], 'stats': r['stats'],
                'n_props': len(props), 'n_checked': len([p for p in props if p[3] != 'REACH']),
                'reach_ids': reach_all, 'reached': reach_ok, 'vacuous': vacuous,
                'fails': [{'prop': p[0], 'desc': p[1], 'cls': p[3], 'id': p[4]} for p in fails]})
    if fails and unw_fail:
        # a counterexample found within the bound is a real execution (paths beyond the bound are cut, not invented);
        # it is replayed natively before being reported
        res['verdict'] = 'cex'
        res['why'] = 'note: some unwinding assertion also fails (base unwind %d, per-loop %s)' % (unwind, loopb)
    elif unw_fail:
        res['verdict'] = 'inconclusive'
        res['why'] = 'unwinding assertion still failing (base unwind %d, per-loop %s, cap %d)' % (unwind, loopb, caps['max_unwind'])
    elif vacuous:
        # decided before looking at failures: a truncated harness proves nothing
        res['verdict'] = 'cex' if fails else 'inconclusive'
        res['why'] = 'vacuous: witness ids %s unreachable' % vacuous
    elif fails:
        res['verdict'] = 'cex'
    elif not reach_all:
        res['verdict'] = 'inconclusive'
        res['why'] = 'no vacuity witness in the translated harness (vf::reach sites were optimised away?)'
    else:
        res['verdict'] = 'pass'
    return res


def prop_needs_checks(prop):
    """the trace run decides ONE property; CBMC's pointer/bounds instrumentation is only needed if that property is one of them
    (property names are <function>.<class>.<n> with per-class counters, so dropping the instrumentation does not renumber assertions)"""
    return not re.search(r'\.assertion\.\d+$', prop)


def get_trace(res, prop, caps):
    """second solver call restricted to one failing property, with trace; returns the replay vector"""
    lb = res.get('loop_bounds') or {}
    us = ['--unwindset', ','.join('%s:%d' % kv for kv in sorted(lb.items()))] if lb else []
    sliceable = bool(re.search(r'\.assertion\.\d+$', prop))   # harness assertions carry the log dependency under -DVF_TRACE
    r = run_cbmc(res['cfile'], res['info']['c_entry'], res.get('base_unwind', res['unwind']), defs=['VF_REACH', 'VF_TRACE'],
                 extra=['--trace', '--property', prop] + us, timeout=3 * caps['timeout'], mem_gb=caps['mem_gb'],
                 slice_=sliceable, checks=prop_needs_checks(prop))
    if r['status'] != 'done':
        return None
    for p in r['results']:
        if p['property'] == prop and p['status'] == 'FAILURE' and 'trace' in p:
            return extract_vector(p['trace'])
    return None


# ----------------------------------------------------------------------------------------- native replay
_replay_bins = {}


def replay_bin(groups, native_profile):
    """native_profile in {'release','dev'}"""
    key = (tuple(sorted(groups)), native_profile)
    if key in _replay_bins:
        return _replay_bins[key]
    feats = ','.join(['replay', 'deep'] + sorted(groups))
    args = ['build', '--offline', '--bin', 'replay', '--features', feats]
    if native_profile == 'release':
        args.append('--release')
    rc, out = cargo(args, 'replay-' + RUN_TAG)
    if rc != 0:
        raise Inconclusive('cannot build the native replay binary:\n' + out[-2000:])
    b = os.path.join(BUILD, 'replay-' + RUN_TAG, 'release' if native_profile == 'release' else 'debug', 'replay')
    # keep a private copy per feature set: cargo overwrites the same path
    dst = b + '-' + hashlib.sha1(feats.encode()).hexdigest()[:8]
    shutil.copy2(b, dst)
    _replay_bins[key] = dst
    return dst


def replay_native(harness, group, vector, profiles=('release', 'dev'), feats=()):
    """returns {profile: set(ids) | 'INVALID' | 'ERROR ...'}"""
    out = {}
    for prof in profiles:
        b = replay_bin([group] + list(feats), prof)
        try:
            p = subprocess.run([b, harness, ','.join(str(x) for x in vector)], stdout=subprocess.PIPE,
                               stderr=subprocess.STDOUT, text=True, timeout=60)
        except subprocess.TimeoutExpired:
            out[prof] = 'ERROR timeout'
            continue
        txt = p.stdout
        ids = set()
        m = re.search(r'REPRODUCED checks=\[([^\]]*)\]', txt)
        if m:
            ids = {int(x) for x in m.group(1).split(',') if x.strip()}
        ma = re.search(r'ALLOCS (\d+)', txt)
        if ma and int(ma.group(1)) > 0 and not ids and 'REPLAY-PANIC' not in txt:
            ids.add(-3)   # heap requests during a run without failing checks or panics
        if 'REPLAY-INVALID' in txt and not ids:
            out[prof] = 'INVALID'
        elif p.returncode < 0:
            out[prof] = {'signal': -p.returncode}
            ids.add(-1)
            out[prof] = ids
        elif 'REPLAY-PANIC' in txt:
            ids.add(-2)
            out[prof] = ids
        else:
            out[prof] = ids
    return out


# ----------------------------------------------------------------------------------------- pool
def run_all(obs, caps, label=''):
    """build, translate (sequential), solve (parallel).  Returns (results, build info)"""
    builds = {}
    prepared = []
    for ob in obs:
        # profile rel is opt-level 3; if the translator meets an IR construct it does not know, fall back to 2, then 1
        levels = [None, 2, 1] if ob.profile == 'rel' else [None]
        p = None
        for opt in levels:
            key = (ob.profile, ob.features(), ob.lto, opt)
            if key not in builds:
                path, secs = build_ir(ob.profile, list(ob.features()), lto=ob.lto, opt=opt)
                builds[key] = {'ll': path, 'secs': round(secs, 1), 'lines': sum(1 for _ in open(path))}
                log('  built IR %s%s features=%s: %d lines in %.1fs' % (ob.profile, ' (opt-level %s fallback)' % opt if opt else '',
                                                                       ','.join(ob.features()), builds[key]['lines'], secs))
            T = translator(builds[key]['ll'])
            p = prepare(ob, T)
            if opt:
                p['opt_level_fallback'] = opt
                p['cfile_note'] = 'translated from opt-level %s IR because the opt-level 3 IR contained an unsupported construct' % opt
            if not (p.get('verdict') == 'inconclusive' and 'unsupported IR construct' in p.get('why', '')):
                break
            log('  %s: %s' % (ob.name, p['why'].splitlines()[0][:200]))
        prepared.append(p)
    results = []
    with cf.ThreadPoolExecutor(max_workers=JOBS) as ex:
        for r in ex.map(lambda p: solve(p, caps), prepared):
            results.append(r)
            v = r['verdict']
            note = ''
            if v == 'cex':
                note = ','.join(sorted({'%s:%s' % (f['cls'], f['id']) for f in r['fails']}))
            elif v == 'inconclusive':
                note = r.get('why', '')[:300]
            log('  [%s] %-36s %-12s unwind=%-3s %6.1fs %s' % (label, r['ob'], v, r.get('unwind', '-'), r.get('secs', 0), note))
    return results, builds
