#!/usr/bin/env python3
"""run checks against a scratch worktree that has a seeded change applied (never touches /repo):
   killwt.py <worktree> <prop>[,<prop>...] [only-regex]      results -> stdout (one JSON line per property)"""
import json, os, subprocess, sys, time
V = os.path.dirname(os.path.dirname(os.path.abspath(__file__)))
wt, props = sys.argv[1], sys.argv[2].split(',')
only = sys.argv[3] if len(sys.argv) > 3 else None
for p in props:
    env = dict(os.environ, VERIF_REPO=wt, VERIF_DEBUG_EVIDENCE='1', CARGO_NET_OFFLINE='true')
    if only:
        env['VERIF_ONLY'] = only
    t0 = time.time()
    r = subprocess.run(['./check', p, '--tier', os.environ.get('SEED_TIER', 'quick')], cwd=V, env=env, stdout=subprocess.PIPE, stderr=subprocess.STDOUT, text=True)
    out = r.stdout
    vio = [l for l in out.splitlines() if l.startswith('VIOLATION') or l.startswith('  harness=')]
    inc = [l for l in out.splitlines() if l.startswith('INCONCLUSIVE')]
    print(json.dumps({'wt': os.path.basename(wt), 'prop': p, 'exit': r.returncode, 'secs': round(time.time() - t0), 'violation': vio[:3], 'inconclusive': inc[:3]}), flush=True)
    open('/tmp/seed/kill_%s_%s.out' % (os.path.basename(wt), p), 'w').write(out)
