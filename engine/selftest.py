"""./check selftest [regex]: validation of the machinery itself (not a property check).
 (a) concrete differential: for each sampled harness the solver produces a concrete input that reaches a vacuity witness
     (a replay vector); the SAME vector is executed natively against /repo (release and dev) and by CBMC over the
     translated code with the inputs fixed (-DVF_FIXED).  Both must report no failing check on the unchanged tree.
 (b) every sampled obligation must be discharged (no false alarm, no vacuity)."""
import json
import os
import re
import sys
import time

import checks
import runner
from runner import log


def fixed_file(cdir, name, vec):
    p = os.path.join(cdir, name + '.fixed.c')
    with open(p, 'w') as f:
        f.write('#include <stdint.h>\nconst uint64_t __vf_fixed[] = {%s};\nconst unsigned __vf_fixed_n = %d;\n' % (
            ','.join('%dULL' % v for v in vec) or '0', len(vec)))
    return p


def run(argv):
    runner.RUN_TAG = 'selftest'
    pat = argv[0] if argv else None
    caps = dict(checks.TIERS['quick'])
    caps['max_unwind'] = 164   # c19_long compares 160-byte buffers
    # sample: per family the largest quick capacity (and the smallest non-trivial one)
    obs = []
    for f, d in sorted(checks.FAM.items()):
        if pat and not re.search(pat, f):
            continue
        picks = [d['quick'][-1]] if d['quick'] else []
        for c in picks:
            h = f + ''.join('_%d' % x for x in c)
            u = d['unwind'](c) if callable(d['unwind']) else d['unwind']
            obs.append(runner.Ob(h, d['group'], profile='rel', family=f, unwind=u, lto=d['lto']))
    log('selftest: %d obligations' % len(obs))
    results, builds = runner.run_all(obs, caps, label='self')
    bad = []
    n_vec = 0
    for r in results:
        if r['verdict'] != 'pass':
            bad.append('%s: verdict %s %s' % (r['ob'], r['verdict'], r.get('why', '')))
            continue
        # one vector per reached witness id (at most 2)
        # the REACH properties are failing assertions by construction: their traces are valid complete-prefix inputs
        rr = runner.run_cbmc(r['cfile'], r['info']['c_entry'], r.get('base_unwind', r['unwind']), defs=['VF_REACH'],
                             extra=_uset(r), timeout=caps['timeout'], mem_gb=caps['mem_gb'])
        reach_props = [p['property'] for p in rr.get('results', []) if p['description'].startswith('REACH:') and p['status'] == 'FAILURE'][:2]
        for prop in reach_props:
            vec = runner.get_trace(r, prop, caps)
            if vec is None:
                bad.append('%s: no trace for witness %s' % (r['ob'], prop))
                continue
            n_vec += 1
            native = runner.replay_native(r['harness'], r['group'], vec)
            # -3 = heap requests seen by the replay binary's counting allocator: a caught panic allocates its payload, not micromap
            nat_fail = {k: sorted(v - {-3}) if isinstance(v, set) else v for k, v in native.items()}
            if any(v for v in nat_fail.values()):
                bad.append('%s: native run of a solver-produced witness input fails checks %s (vector %s)' % (r['ob'], nat_fail, vec))
            fx = fixed_file(os.path.dirname(r['cfile']), 'h_' + r['harness'], vec)
            cr = runner.run_cbmc(r['cfile'], r['info']['c_entry'], r.get('base_unwind', r['unwind']), defs=['VF_FIXED'],
                                 extra=[fx] + _uset(r), timeout=caps['timeout'], mem_gb=caps['mem_gb'])
            if cr['status'] != 'done':
                bad.append('%s: fixed-input run %s' % (r['ob'], cr['status']))
                continue
            fails = [p['description'] for p in cr['results'] if p['status'] != 'SUCCESS' and
                     runner.classify(p['description'])[0] in ('VF', 'ESCAPE', 'ABORT', 'MEM', 'UB')]
            if fails:
                bad.append('%s: encoding disagrees with native on vector %s: %s' % (r['ob'], vec, sorted(set(fails))[:5]))
            log('  [self] %-34s vector len %3d native=%s encoding=%s' % (r['harness'], len(vec), 'ok' if not any(nat_fail.values()) else nat_fail,
                                                                        'ok' if not fails else 'FAILS'))
    out = {'obligations': len(results), 'vectors': n_vec, 'problems': bad}
    os.makedirs(os.path.join(runner.VERIF, 'evidence'), exist_ok=True)
    json.dump(out, open(os.path.join(runner.VERIF, 'evidence', '_selftest.json'), 'w'), indent=1)
    for b in bad:
        log('SELFTEST-PROBLEM: ' + b[:400])
    log('selftest: %d obligations, %d solver-produced vectors cross-executed, %d problems' % (len(results), n_vec, len(bad)))
    return 0 if not bad else 2


def _uset(r):
    lb = r.get('loop_bounds') or {}
    return ['--unwindset', ','.join('%s:%d' % kv for kv in sorted(lb.items()))] if lb else []
