#!/usr/bin/env python3
"""regression over kept seeded changes WITHOUT touching /repo: for each seeded/<name> (optionally filtered by a regex) a scratch
worktree of /repo gets the patch, the check of the property it breaks runs against it (VERIF_REPO), restricted to the obligations
recorded in meta.json (`regress_only`), and exit 1 (VIOLATION) is expected.  Writes seeded/REGRESSION.json.
   killall_wt.py [name-regex]"""
import glob, json, os, re, subprocess, sys, time
V = os.path.dirname(os.path.dirname(os.path.abspath(__file__)))
WT = '/tmp/seed/regress_wt'
only = sys.argv[1] if len(sys.argv) > 1 else None
out_path = os.path.join(V, 'seeded', 'REGRESSION.json')
out = json.load(open(out_path)) if os.path.exists(out_path) else {}


def sh(cmd, **kw):
    return subprocess.run(cmd, shell=True, stdout=subprocess.PIPE, stderr=subprocess.STDOUT, text=True, **kw)


for d in sorted(glob.glob(os.path.join(V, 'seeded', '*'))):
    name = os.path.basename(d)
    m = os.path.join(d, 'meta.json')
    if not os.path.exists(m) or (only and not re.search(only, name)):
        continue
    j = json.load(open(m))
    prop = j.get('breaks_property')
    res = j.get('checks_run', {}).get(prop, '') if prop else ''
    if not prop or prop == 'None' or 'NOT CAUGHT' in res or 'NOT DECIDED' in res:
        out[name] = {'expected': 'silent / not caught / not decided', 'skipped': True}
        continue
    hs = re.findall(r'\b(c\d\d[a-z]?_[a-z0-9_]+?)(?:_\d+)+(?:@\w+)?\b', res)
    fam = j.get('regress_only') or (hs[-1] if hs else None)
    sh('git -C /repo worktree remove --force %s' % WT)
    sh('rm -rf %s' % WT)
    r = sh('git -C /repo worktree add -q --detach %s HEAD && git -C %s apply %s' % (WT, WT, os.path.join(d, 'patch.diff')))
    if r.returncode != 0:
        out[name] = {'property': prop, 'ok': False, 'error': 'patch does not apply: ' + r.stdout[-300:]}
        continue
    env = dict(os.environ, VERIF_REPO=WT, VERIF_DEBUG_EVIDENCE='1', CARGO_NET_OFFLINE='true')
    if fam:
        env['VERIF_ONLY'] = fam
    t0 = time.time()
    r = subprocess.run(['./check', prop, '--tier', 'quick'], cwd=V, env=env, stdout=subprocess.PIPE, stderr=subprocess.STDOUT, text=True)
    vio = [l for l in r.stdout.splitlines() if l.startswith('VIOLATION') or l.startswith('  harness=')]
    out[name] = {'property': prop, 'only': fam, 'exit': r.returncode, 'secs': round(time.time() - t0), 'violation': vio[:2], 'ok': r.returncode == 1}
    print(name, out[name]['exit'], out[name]['secs'], flush=True)
    json.dump(out, open(out_path, 'w'), indent=1)
    for f in glob.glob(os.path.join(V, 'replays', '*.json')):
        os.remove(f)   # counterexamples of seeded trees are not findings about /repo
sh('git -C /repo worktree remove --force %s' % WT)
sh('git -C /repo worktree prune')
sh('rm -rf %s/.build/alt-harness-* %s/.build/harness-*' % (V, V))
bad = [k for k, v in out.items() if not v.get('skipped') and not v.get('ok')]
print('regression: %d seeded changes run, %d detected, not detected: %s' % (len([1 for v in out.values() if not v.get('skipped')]), len([1 for v in out.values() if v.get('ok')]), bad))
