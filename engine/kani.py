"""Engine K: Kani 0.68 on the same generic harness functions (cross-check subset, thorough tier only).
Kani cannot unwind, so only harnesses whose panicking branches are excluded under cfg(kani) are in the subset."""
import json
import os
import re
import subprocess
import time

import runner

SUBSET = json.load(open(os.path.join(runner.HERE, 'kani_subset.json')))


def run_for(families, timeout=3600, jobs=8):
    """returns {proof name: 'pass' | 'fail' | 'error ...'} for the subset proofs of the given families"""
    todo = [p for p in SUBSET if p['family'] in families]
    out = {}
    by_group = {}
    for p in todo:
        by_group.setdefault(p['group'], []).append(p)
    for group, ps in by_group.items():
        cmd = ['cargo', 'kani', '--lib', '--features', group, '--target-dir', os.path.join(runner.BUILD, 'kani'),
               '--output-format', 'terse', '-j', str(jobs)]
        for p in ps:
            cmd += ['--harness', p['name']]
        t0 = time.time()
        try:
            r = subprocess.run(cmd, cwd=runner.HARNESS, env=runner.ENV, stdout=subprocess.PIPE, stderr=subprocess.STDOUT, text=True, timeout=timeout)
            txt = r.stdout
        except subprocess.TimeoutExpired:
            for p in ps:
                out[p['name']] = 'error timeout'
            continue
        # with -j the per-harness output of the threads interleaves: use the final summary
        # ("Verification failed for - <path>" lines, then "Complete - X successfully verified harnesses, Y failures, Z total.")
        m = re.search(r'Complete - (\d+) successfully verified harnesses, (\d+) failures, (\d+) total', txt)
        if m and int(m.group(3)) == len(ps):
            failed = set(re.findall(r'Verification failed for - (?:\w+::)*(\w+)', txt))
            for p in ps:
                out[p['name']] = 'fail' if p['name'] in failed else 'pass'
            if len(failed) != int(m.group(2)):
                for p in ps:
                    out[p['name']] = 'error summary mismatch'
        else:
            for p in ps:
                out[p['name']] = 'error no summary (%s)' % txt[-300:].replace('\n', ' ')
        runner.log('  [K] group %s: %d proofs in %.0fs: %s' % (group, len(ps), time.time() - t0,
                                                            ' '.join('%s=%s' % (p['name'], out[p['name']][:5]) for p in ps)))
    return out
