#!/usr/bin/env python3
"""seeded-change bookkeeping:  seedtool.py verify <id> | kill <id> <prop>[,<prop>..] [only-regex] | keep <id> <name>"""
import json, os, re, shutil, subprocess, sys, time
SEED = '/tmp/seed'
V = '/verif'


def sh(cmd, cwd=None, timeout=3600, env=None):
    p = subprocess.run(cmd, shell=True, cwd=cwd, stdout=subprocess.PIPE, stderr=subprocess.STDOUT, text=True, timeout=timeout,
                       env=dict(os.environ, CARGO_NET_OFFLINE='true', **(env or {})))
    return p.returncode, p.stdout


def verify(i):
    wt = os.path.join(SEED, i)
    patch = os.path.join(SEED, i + '.patch')
    env = {'CARGO_TARGET_DIR': os.path.join(wt, 'target')}
    res = {}
    # state with the change applied (as the agent left it)
    rc, out = sh('git diff --stat -- src', cwd=wt)
    res['diffstat'] = out.strip().splitlines()[-1] if out.strip() else 'NO CHANGE'
    rc, out = sh('cargo test --offline --no-fail-fast 2>&1', cwd=wt, env=env)
    results = re.findall(r'test result: (\w+)\. (\d+) passed; (\d+) failed', out)
    res['with_patch'] = results
    lib_ok = bool(results) and results[0][0] == 'ok' and int(results[0][1]) == 131
    demo_failed = 'seeded_demo' in out and any(r[0] == 'FAILED' for r in results)
    doc_ok = results and results[-1][0] == 'ok'
    res['suite_passes_with_patch'] = bool(lib_ok and doc_ok)
    res['demo_fails_with_patch'] = bool(demo_failed)
    # original source
    sh('git diff -- src > %s.verify && git checkout -- src' % patch, cwd=wt)
    rc, out2 = sh('cargo test --offline --test seeded_demo 2>&1', cwd=wt, env=env)
    res['demo_passes_without_patch'] = rc == 0 and 'test result: ok' in out2
    sh('git apply %s.verify' % patch, cwd=wt)
    rc, out = sh('git diff --stat -- src', cwd=wt)
    res['reapplied'] = bool(out.strip())
    print(json.dumps(res, indent=1))
    return res


def kill(i, props, only=None):
    patch = os.path.join(SEED, i + '.patch')
    if not os.path.exists(patch):
        patch = os.path.join(V, 'seeded', i, 'patch.diff')
    rc, out = sh('git -C /repo status --porcelain --untracked-files=no')
    assert not out.strip(), '/repo not clean: ' + out
    rc, out = sh('git -C /repo apply %s' % patch)
    assert rc == 0, out
    res = {}
    try:
        for p in props:
            t0 = time.time()
            env = {'VERIF_ONLY': only} if only else {}
            env['VERIF_DEBUG_EVIDENCE'] = '1'   # runs on a modified tree never replace evidence/<id>.json
            rc, out = sh('./check %s --tier %s 2>&1' % (p, os.environ.get('SEED_TIER', 'quick')), cwd=V, env=env)
            vio = [l for l in out.splitlines() if l.startswith('VIOLATION') or l.startswith('  harness=')]
            inc = [l for l in out.splitlines() if l.startswith('INCONCLUSIVE')]
            res[p] = {'exit': rc, 'secs': round(time.time() - t0), 'violation': vio[:2], 'inconclusive': inc[:2]}
            print(p, json.dumps(res[p]))
    finally:
        sh('git -C /repo checkout -- .')
    rc, out = sh('git -C /repo status --porcelain --untracked-files=no')
    assert not out.strip()
    return res


def keep(i, name):
    d = os.path.join(V, 'seeded', name)
    os.makedirs(d, exist_ok=True)
    shutil.copy(os.path.join(SEED, i + '.patch'), os.path.join(d, 'patch.diff'))
    demo = os.path.join(SEED, i, 'tests', 'seeded_demo.rs')
    if os.path.exists(demo):
        shutil.copy(demo, os.path.join(d, 'seeded_demo.rs'))
    meta = os.path.join(SEED, i + '.meta.json')
    if os.path.exists(meta):
        shutil.copy(meta, os.path.join(d, 'agent_meta.json'))
    print('kept', d)


if __name__ == '__main__':
    a = sys.argv[1:]
    if a[0] == 'verify':
        verify(a[1])
    elif a[0] == 'kill':
        kill(a[1], a[2].split(','), a[3] if len(a) > 3 else None)
    elif a[0] == 'keep':
        keep(a[1], a[2])
