#!/usr/bin/env python3
"""regenerates section 10 (kill matrix) of DESIGN.md from seeded/*/meta.json"""
import glob, json, os, re
V = os.path.dirname(os.path.dirname(os.path.abspath(__file__)))
rows = []
for d in sorted(glob.glob(os.path.join(V, 'seeded', '*'))):
    m = os.path.join(d, 'meta.json')
    if not os.path.exists(m):
        continue
    j = json.load(open(m))
    name = os.path.basename(d)
    summ = (j.get('summary') or '').replace('\n', ' ').replace('|', '/')
    summ = summ[:230] + ('…' if len(summ) > 230 else '')
    needs = (j.get('needs_to_manifest') or '').replace('\n', ' ').replace('|', '/')
    needs = needs[:200] + ('…' if len(needs) > 200 else '')
    res = '; '.join('**%s**: %s' % (k, v.replace('|', '/')) for k, v in j.get('checks_run', {}).items())
    rows.append('| `%s` | %s | %s | %s | %s |' % (name, j.get('breaks_property'), summ, needs, res))
missed = sum(1 for r in rows if 'MISSED' in r)
txt = '''## 10. Kill matrix: which checks catch which seeded changes

Every change below compiles, passes the 131 unit tests and 71 doctests unchanged, and comes with a demonstration
(`seeded/<name>/seeded_demo.rs`) that fails with the change and passes without it. The `agent-*` ones were written
by fresh sub-agents that were given only the text of one property and a scratch git worktree (nothing from
`/verif`); `…b`–`…e` are later rounds asked for a *different* kind of bug, `…f` / `…g` are the sixth and seventh rounds (each agent also got one-line
summaries of the earlier changes for its property so as not to repeat them). I confirmed each claim myself
(`engine/seedtool.py verify`) before keeping it, then ran the checks against it
(`engine/seedtool.py kill`: `git -C /repo apply`, `./check <prop> --tier quick`, `git -C /repo checkout -- .`; sixth and seventh round:
`engine/killwt.py`, the same checks pointed at the scratch worktree through `VERIF_REPO`, `/repo` untouched).
"MISSED at first" marks the %d changes that a check did not catch when first run; each led to the strengthening
named in the entry (all of those are caught now, and the unchanged tree is still silent). "NOT CAUGHT" marks the changes no check
reaches because they lie outside the stated bounds: an allocation that only happens for a `get_disjoint_mut` request of at least 171 present
keys, a `get_disjoint_mut` request of 33 or more keys (two independent changes; quick bound J ≤ 3, see section 0 for the thorough tier) and a `Set::retain` that breaks only
above 64 elements (capacities above 18 did not finish). "NOT DECIDED" marks the one change on which the check neither passes nor reports: it exits 2 (inconclusive). `rejected-*` is a sub-agent change that violates no property as stated.  `own-*` are mine (not independent).

| seeded change | breaks | what was changed | what it needs to manifest | result |
|---|---|---|---|---|
%s

Patterns worth noting: (1) about half of the misses were *scope* gaps, not oracle gaps — the right assertion existed
but the property's check did not run the harness family that carries it (C05 ← rejection / unchecked / entry harnesses,
C11 ← full-map entry harnesses, C01 ← rejection harnesses, C10 ← ledger ids, C16@dbg and the drain variant in the quick
tier) or the right build configuration (C06 with `std` on, the release profile in the build gate); (2) the other misses
were dimensions the harnesses held fixed — an exact `size_hint`, element types that all had drop glue or all ignored
formatter flags, fold compared by value, iterators consumed only through `next`, only three format specs, no fault
injected into `From<[_;N]>`; sixth round: capacities above 12, element types that were all sized, pair types that were never
entirely zero-sized, rendered pieces of one byte. Each is now a symbolic or an additional dimension.  One assertion was *relaxed*
in the sixth round because it demanded more than C16 states (pull count on the overflow path, see section 0); no other check was loosened.
''' % (missed, '\n'.join(rows))
p = os.path.join(V, 'DESIGN.md')
s = open(p).read()
if '## 10. Kill matrix' in s:
    i = s.index('## 10. Kill matrix')
    j = s.index('## Appendix A')
    s = s[:i] + txt + '\n---------------------------------------------------------------------------------------------------\n\n' + s[j:]
else:
    j = s.index('## Appendix A')
    s = s[:j] + txt + '\n---------------------------------------------------------------------------------------------------\n\n' + s[j:]
open(p, 'w').write(s)
print(len(rows), 'rows,', missed, 'missed-at-first')
