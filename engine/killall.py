#!/usr/bin/env python3
"""regression over every kept seeded change: apply it, run the check of the property it breaks restricted to the harness
family recorded in its meta.json, expect exit 1 (VIOLATION); restores /repo after each.  Writes seeded/REGRESSION.json."""
import glob, json, os, re, sys, time
HERE = os.path.dirname(os.path.abspath(__file__))
sys.path.insert(0, HERE)
import seedtool
V = os.path.dirname(HERE)
out = {}
only = sys.argv[1] if len(sys.argv) > 1 else None
for d in sorted(glob.glob(os.path.join(V, 'seeded', '*'))):
    name = os.path.basename(d)
    m = os.path.join(d, 'meta.json')
    if not os.path.exists(m) or (only and not re.search(only, name)):
        continue
    j = json.load(open(m))
    prop = j.get('breaks_property')
    res = j.get('checks_run', {}).get(prop, '') if prop else ''
    if not prop or 'NOT CAUGHT' in res or 'NOT DECIDED' in res:
        out[name] = {'expected': 'silent / not caught', 'skipped': True}
        continue
    # the harness family named in the recorded result, e.g. "killed: c01_checked_insert_1 VF:208" -> c01_checked_insert
    hs = re.findall(r'\b(c\d\d[a-z]?_[a-z0-9_]+?)(?:_\d+)+(?:@\w+)?\b', res)
    fam = j.get('regress_only') or (hs[-1] if hs else None)
    t0 = time.time()
    r = seedtool.kill(name, [prop], fam)
    out[name] = {'property': prop, 'family': fam, 'exit': r[prop]['exit'], 'secs': round(time.time() - t0), 'violation': r[prop]['violation'][:2],
                 'ok': r[prop]['exit'] == 1}
    json.dump(out, open(os.path.join(V, 'seeded', 'REGRESSION.json'), 'w'), indent=1)
bad = [k for k, v in out.items() if not v.get('skipped') and not v.get('ok')]
print('regression: %d seeded changes, %d detected, not detected: %s' % (len([1 for v in out.values() if not v.get('skipped')]), len([1 for v in out.values() if v.get('ok')]), bad))
