#!/usr/bin/env python3
"""regenerates /verif/MANIFEST.json from engine/checks.py (claimed properties) and properties.jsonl"""
import json, os, sys
HERE = os.path.dirname(os.path.abspath(__file__))
sys.path.insert(0, HERE)
import checks
V = os.path.dirname(HERE)
props = [json.loads(l) for l in open(os.path.join(V, 'properties.jsonl'))]
claimed = [p['id'] for p in props if p['id'] in checks.PROPS and not checks.PROPS[p['id']].get('disabled')]
m = {
    'version': 1,
    'setup_cmd': 'true',
    'hooks': {'guard': 'none', 'enable': 'no hooks: every harness uses the public API of micromap only (path dependency on /repo)',
              'baseline_off_cmd': 'cd /repo && cargo test --workspace --no-fail-fast --offline', 'source_commits': [], 'add_only': True},
    'engines': [
        {'name': 'L', 'path': 'engine/', 'serves_properties': claimed,
         'kind_free_text': 'bounded symbolic execution of the real code: cargo rustc --emit=llvm-ir on a harness crate that path-depends on /repo '
                           '-> engine/ll2c.py (LLVM IR -> C with explicit unwinding) -> CBMC 6.11 (SAT); counterexamples replayed natively'},
    ],
    'checks': [],
    'not_applicable': [],
    'notes': 'exit 0 = all obligations discharged and all vacuity witnesses reachable; exit 1 = VIOLATION (counterexample reproduced natively); '
             'exit 2 = inconclusive (never reported as success). See DESIGN.md.',
}
for p in props:
    pid = p['id']
    if pid in claimed:
        d = checks.PROPS[pid]
        fams = d['fams'].split()
        qcaps = sorted({c for f in fams for c in checks.FAM[f]['quick']})
        dcaps = sorted({c for f in fams for c in checks.FAM[f]['deep']})
        profs = sorted({pr for f in fams for pr in checks.FAM[f]['profiles']})
        bounds = ('%d harness families (%s%s); capacity/parameter tuples quick %s, thorough adds %s; build profiles %s%s. '
                  % (len(fams), ', '.join(fams[:6]), ', ...' if len(fams) > 6 else '', qcaps[:12], dcaps[:10], profs,
                     '; plus a second build with micromap/std on' if d.get('fams_std') else ''))
        m['checks'].append({
            'property_id': pid,
            'quick_cmd': './check %s --tier quick' % pid,
            'thorough_cmd': './check %s --tier thorough' % pid,
            'evidence_file': 'evidence/%s.json' % pid,
            'replay_cmd_template': './check --replay {path}',
            'engine': 'L',
            'level_claimed': {'category': 'model_checking',
                              'text': 'bounded model checking of the compiled code: ' + bounds + 'Every obligation is decided by CBMC/SAT for ALL symbolic inputs '
                                      'and ALL reachable pre-states at those capacities (single-step induction from arbitrary states built through the public API); '
                                      'unwinding assertions guarantee the loop bounds are sufficient; nothing is claimed beyond the bounds. ' + d.get('level', ''),
                              'design_ref': 'DESIGN.md section 5 (%s)' % pid},
            'level_note': d.get('note', 'trusted: rustc IR emission, our IR->C translator (validated by selftest), CBMC, SAT solver; '
                                        'element types are ledger tokens; capacities as listed in the evidence file'),
            'technique': d.get('technique', 'solver-based bounded symbolic execution of the compiled code (LLVM IR -> C -> CBMC/SAT), single-step induction from arbitrary reachable states'),
        })
    else:
        m['not_applicable'].append({'property_id': pid, 'reason': checks.NA.get(pid, 'check under construction: not yet registered')})
json.dump(m, open(os.path.join(V, 'MANIFEST.json'), 'w'), indent=1)
print('claimed:', ' '.join(claimed))
