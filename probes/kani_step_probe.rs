#![allow(static_mut_refs)]
use core::mem::MaybeUninit;
use micromap::Map;

pub const MAXTOK: usize = 16;
// 0 = never created, 1 = live, 2 = dropped
pub static mut LEDGER: [u8; MAXTOK] = [0; MAXTOK];
pub static mut NEXT: usize = 0;
pub static mut DROPS: usize = 0;

#[derive(Debug)]
pub struct Tok {
    pub id: usize,
    pub key: u8,
}
impl Tok {
    pub fn new(key: u8) -> Tok {
        unsafe {
            let id = NEXT;
            assert!(id < MAXTOK);
            NEXT += 1;
            LEDGER[id] = 1;
            Tok { id, key }
        }
    }
}
impl Drop for Tok {
    fn drop(&mut self) {
        unsafe {
            assert!(self.id < MAXTOK, "drop of garbage token");
            assert!(LEDGER[self.id] == 1, "double drop or drop of dead token");
            LEDGER[self.id] = 2; DROPS += 1;
        }
    }
}
impl PartialEq for Tok {
    fn eq(&self, o: &Tok) -> bool {
        unsafe {
            assert!(self.id < MAXTOK && o.id < MAXTOK);
            assert!(LEDGER[self.id] == 1 && LEDGER[o.id] == 1, "compare of dead token");
        }
        self.key == o.key
    }
}


#[cfg(kani)]
mod proofs {
    use super::*;
    const N: usize = 4;

    fn any_map() -> (Map<Tok, Tok, N>, usize, [u8; N], [u8; N]) {
        let n: usize = kani::any();
        kani::assume(n <= N);
        let keys: [u8; N] = kani::any();
        let vals: [u8; N] = kani::any();
        let mut pairs: [MaybeUninit<(Tok, Tok)>; N] = [const { MaybeUninit::uninit() }; N];
        for i in 0..N {
            if i < n {
                for j in 0..i {
                    kani::assume(keys[i] != keys[j]);
                }
                pairs[i].write((Tok::new(keys[i]), Tok::new(vals[i])));
            }
        }
        (unsafe { Map::verif_from_raw(n, pairs) }, n, keys, vals)
    }

    fn model_get(n: usize, keys: &[u8; N], vals: &[u8; N], k: u8) -> Option<u8> {
        let mut r = None;
        for i in 0..N {
            if i < n && keys[i] == k {
                r = Some(vals[i]);
            }
        }
        r
    }

    fn finish(m: Map<Tok, Tok, N>) {
        let mut cnt = 0;
        for (kk, vv) in m.iter() {
            unsafe {
                assert!(LEDGER[kk.id] == 1 && LEDGER[vv.id] == 1);
            }
            cnt += 1;
        }
        assert_eq!(cnt, m.len());
        drop(m);
        unsafe { assert!(DROPS == NEXT, "leak"); }
    }

    #[kani::proof]
    #[kani::unwind(6)]
    fn step_insert() {
        let (mut m, n, keys, vals) = any_map();
        let k: u8 = kani::any();
        let v: u8 = kani::any();
        let q: u8 = kani::any();
        let had = model_get(n, &keys, &vals, k);
        let before_q = model_get(n, &keys, &vals, q);
        kani::assume(had.is_some() || n < N);
        let r = m.insert(Tok::new(k), Tok::new(v));
        assert_eq!(r.as_ref().map(|t| t.key), had);
        assert_eq!(m.len(), if had.is_some() { n } else { n + 1 });
        assert_eq!(m.get(&Tok::new(k)).map(|t| t.key), Some(v));
        if q != k {
            assert_eq!(m.get(&Tok::new(q)).map(|t| t.key), before_q);
        }
        drop(r);
        finish(m);
    }

    #[kani::proof]
    #[kani::unwind(6)]
    fn step_remove() {
        let (mut m, n, keys, vals) = any_map();
        let k: u8 = kani::any();
        let q: u8 = kani::any();
        let had = model_get(n, &keys, &vals, k);
        let before_q = model_get(n, &keys, &vals, q);
        let r = m.remove(&Tok::new(k));
        assert_eq!(r.as_ref().map(|t| t.key), had);
        assert_eq!(m.len(), if had.is_some() { n - 1 } else { n });
        assert!(m.get(&Tok::new(k)).is_none());
        if q != k {
            assert_eq!(m.get(&Tok::new(q)).map(|t| t.key), before_q);
        }
        drop(r);
        finish(m);
    }

    #[kani::proof]
    #[kani::unwind(6)]
    fn step_retain() {
        let (mut m, n, keys, vals) = any_map();
        let k: u8 = kani::any();
        let q: u8 = kani::any();
        let before_q = model_get(n, &keys, &vals, q);
        m.retain(|kk, _| kk.key < k);
        if q < k {
            assert_eq!(m.get(&Tok::new(q)).map(|t| t.key), before_q);
        } else {
            assert!(m.get(&Tok::new(q)).is_none());
        }
        finish(m);
    }
}
