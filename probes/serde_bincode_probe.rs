#![no_std]
use micromap::Map;
extern "C" {
    fn vf_nondet_u8() -> u8;
    fn vf_nondet_usize() -> usize;
    fn vf_assume_c(c: bool);
    fn vf_check_c(c: bool, id: u32);
}
const N: usize = 3;
#[no_mangle]
pub unsafe extern "C-unwind" fn h_c20_bincode() {
    let n = vf_nondet_usize();
    vf_assume_c(n <= N);
    let mut m: Map<u8, u8, N> = Map::new();
    let mut i = 0;
    while i < N {
        if i < n {
            let k = vf_nondet_u8();
            vf_assume_c(!m.contains_key(&k));
            m.insert(k, vf_nondet_u8());
        }
        i += 1;
    }
    let cfg = bincode::config::legacy();
    let mut bytes = [0u8; 32];
    let len = match bincode::serde::encode_into_slice(&m, &mut bytes, cfg) { Ok(l) => l, Err(_) => { vf_check_c(false, 1); return; } };
    vf_check_c(len == 8 + 2 * m.len(), 2);
    vf_check_c(bytes[0] as usize == m.len(), 3);
    let r: Result<(Map<u8, u8, 4>, usize), _> = bincode::serde::decode_from_slice(&bytes[..len], cfg);
    match r {
        Ok((after, read)) => {
            vf_check_c(read == len, 4);
            vf_check_c(after == m, 5);
            vf_check_c(m == after, 6);
        }
        Err(_) => vf_check_c(false, 7),
    }
}
