#include <stdint.h>
extern int __unw;
uint8_t __VERIFIER_nondet_u8(void); uint64_t __VERIFIER_nondet_u64(void);
uint64_t __vf_log[64]; unsigned __vf_n = 0;
static void lg(uint64_t v) { if (__vf_n < 64) __vf_log[__vf_n] = v; __vf_n++; }
uint8_t vf_nondet_u8(void) { uint8_t v = __VERIFIER_nondet_u8(); lg(v); return v; }
uint64_t vf_nondet_usize(void) { uint64_t v = __VERIFIER_nondet_u64(); lg(v); return v; }
void vf_assume_c(unsigned char c) { __CPROVER_assume(c); }
void vf_check_c(unsigned char c, uint32_t id) { __CPROVER_assert(c, "VF_CHECK"); }
#ifdef VF_REACH
void vf_reach_c(uint32_t id) { if (id == VF_REACH) __CPROVER_assert(0, "VF_REACH witness"); }
#else
void vf_reach_c(uint32_t id) { }
#endif
void vf_raise_c(void) { __unw = 1; }
unsigned char vf_try_c(unsigned char *f, unsigned char *data) {
  ((void (*)(unsigned char*))f)(data);
  if (__unw) { __unw = 0; return 1; }
  return 0;
}
void __vf_init_globals(void);
uint32_t bcmp(unsigned char *a, unsigned char *b, uint64_t n) { for (uint64_t i = 0; i < n; i++) if (a[i] != b[i]) return 1; return 0; }
uint32_t memcmp(unsigned char *a, unsigned char *b, uint64_t n) { for (uint64_t i = 0; i < n; i++) if (a[i] != b[i]) return a[i] < b[i] ? (uint32_t)-1 : 1; return 0; }
