#include <stdint.h>
void __vf_init_globals(void); void h_c03_insert_full(void); void h_c17_disjoint(void);
void m_c03(void) { __vf_init_globals(); h_c03_insert_full(); }
void m_c17(void) { __vf_init_globals(); h_c17_disjoint(); }
unsigned char vf_ptr_within_c(unsigned char *p, unsigned char *base, uint64_t size, uint64_t len) {
  if (!__CPROVER_same_object(p, base)) return 0;
  long d = __CPROVER_POINTER_OFFSET(p) - __CPROVER_POINTER_OFFSET(base);
  return d >= 0 && (uint64_t)d + len <= size;
}
