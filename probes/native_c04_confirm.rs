use micromap::Map;
use std::cell::RefCell;
use std::panic::{catch_unwind, AssertUnwindSafe};

thread_local! {
    static LEDGER: RefCell<Vec<u8>> = RefCell::new(Vec::new()); // 1 live, 2 dropped
    static FAULT: RefCell<(i32, i32)> = RefCell::new((-1, 0)); // (fault_at, calls)
    static BAD: RefCell<Vec<String>> = RefCell::new(Vec::new());
}
fn fault() -> bool {
    FAULT.with(|f| {
        let mut f = f.borrow_mut();
        let hit = f.1 == f.0;
        f.1 += 1;
        hit
    })
}
struct Tok(usize, u8);
impl Tok {
    fn new(k: u8) -> Tok {
        LEDGER.with(|l| {
            let mut l = l.borrow_mut();
            l.push(1);
            Tok(l.len() - 1, k)
        })
    }
}
impl Drop for Tok {
    fn drop(&mut self) {
        let ok = LEDGER.with(|l| {
            let mut l = l.borrow_mut();
            if self.0 >= l.len() || l[self.0] != 1 { false } else { l[self.0] = 2; true }
        });
        if !ok {
            BAD.with(|b| b.borrow_mut().push(format!("drop of non-live token serial={}", self.0)));
        }
        if fault() { panic!("injected in drop"); }
    }
}
impl Clone for Tok {
    fn clone(&self) -> Tok {
        if fault() { panic!("injected in clone"); }
        Tok::new(self.1)
    }
}
impl PartialEq for Tok { fn eq(&self, o: &Tok) -> bool { self.1 == o.1 } }

fn build() -> Map<Tok, Tok, 3> {
    let mut m = Map::new();
    for i in 0..3u8 { m.insert(Tok::new(i), Tok::new(100 + i)); }
    m
}
fn run(name: &str, fault_at: i32, f: impl FnOnce(&mut Map<Tok, Tok, 3>)) {
    LEDGER.with(|l| l.borrow_mut().clear());
    BAD.with(|b| b.borrow_mut().clear());
    let mut m = build();
    FAULT.with(|x| *x.borrow_mut() = (fault_at, 0));
    let r = catch_unwind(AssertUnwindSafe(|| f(&mut m)));
    FAULT.with(|x| *x.borrow_mut() = (-1, 0));
    drop(m);
    let bad = BAD.with(|b| b.borrow().clone());
    println!("{name} fault_at={fault_at} panicked={} violations={:?}", r.is_err(), bad);
}
fn main() {
    std::panic::set_hook(Box::new(|_| {}));
    run("clear", 1, |m| m.clear());
    run("retain", 0, |m| m.retain(|k, _| k.1 != 1));
    // clone: dropping uninitialised slots is UB; observable here as a garbage serial
    run("clone", 2, |m| { let c = m.clone(); drop(c); });
}
