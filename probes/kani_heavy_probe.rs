use core::fmt::Write;
use core::mem::MaybeUninit;
use micromap::{Map, Set};

pub struct Buf {
    pub b: [u8; 64],
    pub n: usize,
}
impl Write for Buf {
    fn write_str(&mut self, s: &str) -> core::fmt::Result {
        for &c in s.as_bytes() {
            if self.n < 64 {
                self.b[self.n] = c;
                self.n += 1;
            }
        }
        Ok(())
    }
}

#[derive(PartialEq, Eq, Clone, Copy)]
pub struct D(pub u8); // single-digit display
impl core::fmt::Display for D {
    fn fmt(&self, f: &mut core::fmt::Formatter<'_>) -> core::fmt::Result {
        f.write_char((b'0' + (self.0 % 10)) as char)
    }
}
impl core::fmt::Debug for D {
    fn fmt(&self, f: &mut core::fmt::Formatter<'_>) -> core::fmt::Result {
        f.write_char((b'a' + (self.0 % 10)) as char)
    }
}

#[cfg(kani)]
mod proofs {
    use super::*;

    fn any_map<const N: usize>() -> (Map<u8, u8, N>, usize, [u8; N], [u8; N]) {
        let n: usize = kani::any();
        kani::assume(n <= N);
        let keys: [u8; N] = kani::any();
        let vals: [u8; N] = kani::any();
        let mut pairs: [MaybeUninit<(u8, u8)>; N] = [const { MaybeUninit::uninit() }; N];
        for i in 0..N {
            if i < n {
                for j in 0..i {
                    kani::assume(keys[i] != keys[j]);
                }
                pairs[i].write((keys[i], vals[i]));
            }
        }
        (unsafe { Map::verif_from_raw(n, pairs) }, n, keys, vals)
    }

    #[kani::proof]
    #[kani::unwind(6)]
    fn p1_disjoint3() {
        let (mut m, _n, _keys, _vals) = any_map::<4>();
        let a: u8 = kani::any();
        let b: u8 = kani::any();
        let c: u8 = kani::any();
        kani::assume(a != b && b != c && a != c);
        let ea = m.get(&a).copied();
        let eb = m.get(&b).copied();
        let ec = m.get(&c).copied();
        let [ra, rb, rc] = m.get_disjoint_mut([&a, &b, &c]);
        assert_eq!(ra.as_deref().copied(), ea);
        assert_eq!(rb.as_deref().copied(), eb);
        assert_eq!(rc.as_deref().copied(), ec);
        if let (Some(x), Some(y)) = (&ra, &rb) {
            assert!(!core::ptr::eq(*x as *const u8, *y as *const u8));
        }
    }

    #[kani::proof]
    #[kani::unwind(70)]
    fn p2_display() {
        let n: usize = kani::any();
        kani::assume(n <= 2);
        let mut m: Map<D, D, 2> = Map::new();
        let k0: u8 = kani::any();
        let k1: u8 = kani::any();
        kani::assume(k0 < 10 && k1 < 10 && k0 != k1);
        if n >= 1 { m.insert(D(k0), D(1)); }
        if n >= 2 { m.insert(D(k1), D(2)); }
        let mut buf = Buf { b: [0; 64], n: 0 };
        write!(buf, "{}", m).unwrap();
        let expect_len = if n == 0 { 2 } else if n == 1 { 6 } else { 12 };
        assert_eq!(buf.n, expect_len);
        assert_eq!(buf.b[0], b'{');
        if n >= 1 { assert_eq!(buf.b[1], b'0' + k0); }
    }

    #[kani::proof]
    #[kani::unwind(70)]
    fn p2_debug() {
        let n: usize = kani::any();
        kani::assume(n <= 2);
        let mut m: Map<D, D, 2> = Map::new();
        let k0: u8 = kani::any();
        let k1: u8 = kani::any();
        kani::assume(k0 < 10 && k1 < 10 && k0 != k1);
        if n >= 1 { m.insert(D(k0), D(1)); }
        if n >= 2 { m.insert(D(k1), D(2)); }
        let mut buf = Buf { b: [0; 64], n: 0 };
        write!(buf, "{:?}", m).unwrap();
        let expect_len = if n == 0 { 2 } else if n == 1 { 6 } else { 12 };
        assert_eq!(buf.n, expect_len);
    }

    #[kani::proof]
    #[kani::unwind(6)]
    fn p3_union() {
        let mut a: Set<u8, 3> = Set::new();
        let mut b: Set<u8, 3> = Set::new();
        let xs: [u8; 3] = kani::any();
        let ys: [u8; 3] = kani::any();
        let na: usize = kani::any();
        let nb: usize = kani::any();
        kani::assume(na <= 3 && nb <= 3);
        for i in 0..3 {
            if i < na { a.insert(xs[i]); }
            if i < nb { b.insert(ys[i]); }
        }
        let q: u8 = kani::any();
        let mut cnt_q = 0;
        let mut total = 0;
        for x in a.union(&b) {
            if *x == q { cnt_q += 1; }
            total += 1;
        }
        let expect = (a.contains(&q) || b.contains(&q)) as usize;
        assert_eq!(cnt_q, expect);
        assert!(total <= a.len() + b.len());
    }
}
