use micromap::Map;
#[cfg(kani)]
mod proofs {
    use super::*;
    #[kani::proof]
    #[kani::unwind(4)]
    fn full_insert() {
        let mut m: Map<u8, u8, 2> = Map::new();
        m.insert(1, 10);
        m.insert(2, 20);
        let k: u8 = kani::any();
        kani::assume(k != 1 && k != 2);
        kani::cover!(cfg!(debug_assertions), "DEBUG_ASSERTIONS_ON");
        kani::cover!(!cfg!(debug_assertions), "DEBUG_ASSERTIONS_OFF");
        m.insert(k, 5);
        kani::cover!(true, "REACHED_AFTER_INSERT");
    }
}
