use core::fmt::Write;
use micromap::Map;

extern "C" {
    fn nondet_u8() -> u8;
    fn nondet_usize() -> usize;
    fn vf_assume(c: bool);
    fn vf_assert(c: bool, code: u32);
}

pub struct Buf {
    pub b: [u8; 64],
    pub n: usize,
}
impl Write for Buf {
    fn write_str(&mut self, s: &str) -> core::fmt::Result {
        for &c in s.as_bytes() {
            if self.n < 64 {
                self.b[self.n] = c;
                self.n += 1;
            }
        }
        Ok(())
    }
}

#[derive(PartialEq, Eq, Clone, Copy)]
pub struct D(pub u8);
impl core::fmt::Display for D {
    fn fmt(&self, f: &mut core::fmt::Formatter<'_>) -> core::fmt::Result {
        f.write_char((b'0' + (self.0 % 10)) as char)
    }
}
impl core::fmt::Debug for D {
    fn fmt(&self, f: &mut core::fmt::Formatter<'_>) -> core::fmt::Result {
        f.write_char((b'a' + (self.0 % 10)) as char)
    }
}

#[no_mangle]
pub unsafe extern "C-unwind" fn h_display() {
    let n = nondet_usize();
    vf_assume(n <= 2);
    let mut m: Map<D, D, 2> = Map::new();
    let k0 = nondet_u8();
    let k1 = nondet_u8();
    vf_assume(k0 < 10 && k1 < 10 && k0 != k1);
    if n >= 1 { m.insert(D(k0), D(1)); }
    if n >= 2 { m.insert(D(k1), D(2)); }
    let mut buf = Buf { b: [0; 64], n: 0 };
    let _ = write!(buf, "{}", m);
    let expect_len = if n == 0 { 2 } else if n == 1 { 6 } else { 12 };
    vf_assert(buf.n == expect_len, 1);
    vf_assert(buf.b[0] == b'{', 2);
    if n >= 1 { vf_assert(buf.b[1] == b'0' + k0, 3); }
}

#[no_mangle]
pub unsafe extern "C-unwind" fn h_debug() {
    let n = nondet_usize();
    vf_assume(n <= 2);
    let mut m: Map<D, D, 2> = Map::new();
    let k0 = nondet_u8();
    let k1 = nondet_u8();
    vf_assume(k0 < 10 && k1 < 10 && k0 != k1);
    if n >= 1 { m.insert(D(k0), D(1)); }
    if n >= 2 { m.insert(D(k1), D(2)); }
    let mut buf = Buf { b: [0; 64], n: 0 };
    let _ = write!(buf, "{:?}", m);
    let expect_len = if n == 0 { 2 } else if n == 1 { 6 } else { 12 };
    vf_assert(buf.n == expect_len, 1);
}
