#![no_std]
use micromap::Map;

extern "C-unwind" {
    fn tok_drop(id: u32);
    fn tok_eq(a: u32, b: u32) -> bool;
    fn tok_clone(a: u32) -> u32;
}

#[repr(transparent)]
pub struct Tok(pub u32);
impl Drop for Tok {
    #[inline]
    fn drop(&mut self) {
        unsafe { tok_drop(self.0) }
    }
}
impl PartialEq for Tok {
    #[inline]
    fn eq(&self, o: &Tok) -> bool {
        unsafe { tok_eq(self.0, o.0) }
    }
}
impl Clone for Tok {
    #[inline]
    fn clone(&self) -> Tok {
        Tok(unsafe { tok_clone(self.0) })
    }
}

pub type M = Map<Tok, Tok, 3>;

#[no_mangle]
pub unsafe extern "C-unwind" fn op_clone(m: &M, out: *mut M) {
    out.write(m.clone());
}
#[no_mangle]
pub unsafe extern "C-unwind" fn op_clear(m: &mut M) {
    m.clear();
}
#[no_mangle]
pub unsafe extern "C-unwind" fn op_insert(m: &mut M, k: u32, v: u32) -> u32 {
    match m.insert(Tok(k), Tok(v)) {
        Some(t) => {
            let x = t.0;
            core::mem::forget(t);
            x
        }
        None => u32::MAX,
    }
}
#[no_mangle]
pub unsafe extern "C-unwind" fn op_drop(m: *mut M) {
    core::ptr::drop_in_place(m);
}
#[no_mangle]
pub unsafe extern "C-unwind" fn op_retain(m: &mut M, t: u32) {
    m.retain(|k, _| k.0 < t);
}

extern "C" {
    fn nondet_u8() -> u8;
    fn nondet_usize() -> usize;
    fn vf_assume(c: bool);
    fn vf_assert(c: bool, code: u32);
}
use micromap::Set;

#[no_mangle]
pub unsafe extern "C-unwind" fn h_union() {
    let mut a: Set<u8, 3> = Set::new();
    let mut b: Set<u8, 3> = Set::new();
    let xs = [nondet_u8(), nondet_u8(), nondet_u8()];
    let ys = [nondet_u8(), nondet_u8(), nondet_u8()];
    let na = nondet_usize();
    let nb = nondet_usize();
    vf_assume(na <= 3 && nb <= 3);
    for i in 0..3 {
        if i < na { a.insert(xs[i]); }
        if i < nb { b.insert(ys[i]); }
    }
    let q = nondet_u8();
    let mut cnt_q = 0usize;
    let mut total = 0usize;
    for x in a.union(&b) {
        if *x == q { cnt_q += 1; }
        total += 1;
    }
    let expect = (a.contains(&q) || b.contains(&q)) as usize;
    vf_assert(cnt_q == expect, 1);
    vf_assert(total <= a.len() + b.len(), 2);
}

#[no_mangle]
pub unsafe extern "C-unwind" fn h_disjoint3() {
    let mut m: Map<u8, u8, 4> = Map::new();
    let n = nondet_usize();
    vf_assume(n <= 4);
    for i in 0..4 {
        if i < n {
            let k = nondet_u8();
            vf_assume(!m.contains_key(&k));
            m.insert(k, nondet_u8());
        }
    }
    let a = nondet_u8();
    let b = nondet_u8();
    let c = nondet_u8();
    vf_assume(a != b && b != c && a != c);
    let ea = m.get(&a).copied();
    let eb = m.get(&b).copied();
    let ec = m.get(&c).copied();
    let [ra, rb, rc] = m.get_disjoint_mut([&a, &b, &c]);
    vf_assert(ra.as_deref().copied() == ea, 1);
    vf_assert(rb.as_deref().copied() == eb, 2);
    vf_assert(rc.as_deref().copied() == ec, 3);
    if let (Some(x), Some(y)) = (&ra, &rb) {
        vf_assert(!core::ptr::eq(*x as *const u8, *y as *const u8), 4);
    }
}
