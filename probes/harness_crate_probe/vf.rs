//! one harness source, several back ends
#[cfg(feature = "cbmc")]
mod imp {
    extern "C" {
        fn vf_nondet_u8() -> u8;
        fn vf_nondet_usize() -> usize;
        fn vf_assume_c(c: bool);
        fn vf_check_c(c: bool, id: u32);
        fn vf_reach_c(id: u32);
    }
    extern "C-unwind" {
        fn vf_raise_c() -> !;
        fn vf_try_c(f: unsafe extern "C-unwind" fn(*mut u8), data: *mut u8) -> bool;
    }
    pub fn any_u8() -> u8 { unsafe { vf_nondet_u8() } }
    pub fn any_usize() -> usize { unsafe { vf_nondet_usize() } }
    pub fn assume(c: bool) { unsafe { vf_assume_c(c) } }
    pub fn check(c: bool, id: u32) { unsafe { vf_check_c(c, id) } }
    pub fn reach(id: u32) { unsafe { vf_reach_c(id) } }
    pub fn raise() -> ! { unsafe { vf_raise_c() } }
    unsafe extern "C-unwind" fn tramp<F: FnOnce()>(p: *mut u8) {
        let f = (*(p as *mut Option<F>)).take();
        if let Some(f) = f { f() }
    }
    /// returns true if `f` panicked
    pub fn catch<F: FnOnce()>(f: F) -> bool {
        let mut slot = Some(f);
        unsafe { vf_try_c(tramp::<F>, &mut slot as *mut Option<F> as *mut u8) }
    }
}
#[cfg(kani)]
mod imp {
    pub fn any_u8() -> u8 { kani::any() }
    pub fn any_usize() -> usize { kani::any() }
    pub fn assume(c: bool) { kani::assume(c) }
    pub fn check(c: bool, _id: u32) { assert!(c) }
    pub fn reach(_id: u32) { kani::cover!(true) }
    pub fn raise() -> ! { panic!("injected") }
    pub fn catch<F: FnOnce()>(f: F) -> bool { f(); false }
}
#[cfg(feature = "replay")]
mod imp {
    use std::cell::RefCell;
    thread_local! {
        pub static VEC: RefCell<(Vec<u64>, usize)> = RefCell::new((Vec::new(), 0));
        pub static FAILED: RefCell<Vec<u32>> = RefCell::new(Vec::new());
    }
    fn next() -> u64 {
        VEC.with(|v| { let mut v = v.borrow_mut(); let i = v.1; v.1 += 1; v.0.get(i).copied().unwrap_or(0) })
    }
    pub fn set_vector(v: Vec<u64>) { VEC.with(|x| *x.borrow_mut() = (v, 0)); }
    pub fn failed() -> Vec<u32> { FAILED.with(|f| f.borrow().clone()) }
    pub fn any_u8() -> u8 { next() as u8 }
    pub fn any_usize() -> usize { next() as usize }
    pub fn assume(c: bool) { if !c { println!("REPLAY-INVALID assumption violated"); std::process::exit(3); } }
    pub fn check(c: bool, id: u32) { if !c { FAILED.with(|f| f.borrow_mut().push(id)); } }
    pub fn reach(_id: u32) {}
    pub fn raise() -> ! { panic!("injected") }
    pub fn catch<F: FnOnce()>(f: F) -> bool {
        std::panic::catch_unwind(std::panic::AssertUnwindSafe(f)).is_err()
    }
}
pub use imp::*;
