#![allow(static_mut_refs)]
use crate::vf;
pub const MAXTOK: usize = 24;
pub static mut STATE: [u8; MAXTOK] = [0; MAXTOK]; // 0 never, 1 live, 2 dead
pub static mut CREATED: usize = 0;
pub static mut DROPPED: usize = 0;
pub static mut CLONES_OF: [u8; MAXTOK] = [0; MAXTOK];
pub static mut FAULT_AT: usize = usize::MAX;
pub static mut CALLS: usize = 0;

pub fn reset() {
    unsafe {
        STATE = [0; MAXTOK]; CREATED = 0; DROPPED = 0; CLONES_OF = [0; MAXTOK]; FAULT_AT = usize::MAX; CALLS = 0;
    }
}
#[inline(never)]
fn fault_point() {
    unsafe {
        let c = CALLS;
        CALLS = c + 1;
        if c == FAULT_AT { vf::raise(); }
    }
}
fn live(serial: usize) -> bool { unsafe { serial < MAXTOK && STATE[serial] == 1 } }

pub struct Tok { pub serial: usize, pub key: u8 }
impl Tok {
    pub fn new(key: u8) -> Tok {
        unsafe {
            let s = CREATED;
            vf::assume(s < MAXTOK);
            CREATED = s + 1;
            STATE[s] = 1;
            Tok { serial: s, key }
        }
    }
}
impl Drop for Tok {
    fn drop(&mut self) {
        vf::check(live(self.serial), 901); // double drop / drop of garbage
        unsafe { if self.serial < MAXTOK { STATE[self.serial] = 2; } DROPPED += 1; }
        fault_point();
    }
}
impl Clone for Tok {
    fn clone(&self) -> Tok {
        vf::check(live(self.serial), 902);
        fault_point();
        unsafe { if self.serial < MAXTOK { CLONES_OF[self.serial] += 1; } }
        Tok::new(self.key)
    }
}
impl PartialEq for Tok {
    fn eq(&self, o: &Tok) -> bool {
        vf::check(live(self.serial) && live(o.serial), 903);
        fault_point();
        self.key == o.key
    }
}
