#![cfg_attr(feature = "cbmc", no_std)]
#![allow(static_mut_refs)]
pub mod tok;
pub mod vf;
use micromap::Map;
use tok::Tok;

const N: usize = 3;

/// C03: insert of an absent key into a full map: must panic, map unchanged, args dropped once
#[no_mangle]
pub extern "C-unwind" fn h_c03_insert_full() {
    tok::reset();
    #[repr(C)]
    struct Guarded { lo: [u64; 2], m: Map<Tok, Tok, N>, hi: [u64; 2] }
    let mut g = Guarded { lo: [0xA5A5A5A5A5A5A5A5; 2], m: Map::new(), hi: [0x5A5A5A5A5A5A5A5A; 2] };
    let mut keys = [0u8; N];
    let mut vals = [0u8; N];
    let mut i = 0;
    while i < N {
        keys[i] = vf::any_u8(); vals[i] = vf::any_u8();
        let mut j = 0; while j < i { vf::assume(keys[j] != keys[i]); j += 1; }
        g.m.insert(Tok::new(keys[i]), Tok::new(vals[i]));
        i += 1;
    }
    let k = vf::any_u8();
    let v = vf::any_u8();
    let mut j = 0; while j < N { vf::assume(keys[j] != k); j += 1; }
    let kt = Tok::new(k);
    let vt = Tok::new(v);
    let (ks, vs) = (kt.serial, vt.serial);
    let created = unsafe { tok::CREATED };
    let dropped = unsafe { tok::DROPPED };
    let panicked = vf::catch(|| { let _ = g.m.insert(kt, vt); });
    vf::check(panicked, 1);
    if panicked { vf::reach(1); }
    unsafe {
        vf::check(tok::STATE[ks] == 2 && tok::STATE[vs] == 2, 2);       // rejected args destroyed
        vf::check(tok::DROPPED == dropped + 2 && tok::CREATED == created, 3); // exactly once, nothing else touched
    }
    vf::check(g.lo == [0xA5A5A5A5A5A5A5A5; 2] && g.hi == [0x5A5A5A5A5A5A5A5A; 2], 4);
    vf::check(g.m.len() == N && g.m.capacity() == N, 5);
    let mut idx = 0;
    for (kk, vv) in g.m.iter() {
        vf::check(idx < N && kk.key == keys[idx] && vv.key == vals[idx], 6);
        vf::check(vf::ptr_within(vv as *const Tok, &g.m as *const Map<Tok, Tok, N>), 7);
        idx += 1;
    }
    vf::check(idx == N, 8);
    // still usable: replace on full succeeds, checked_insert of absent key is None
    let r = g.m.insert(Tok::new(keys[0]), Tok::new(v));
    vf::check(r.map(|t| t.key) == Some(vals[0]), 9);
    vf::check(g.m.checked_insert(Tok::new(k), Tok::new(v)).is_none(), 10);
    drop(g);
    unsafe { vf::check(tok::DROPPED == tok::CREATED, 302); }
}

/// C17: adversarial Eq
pub struct Liar(pub Tok);
impl PartialEq for Liar {
    fn eq(&self, o: &Liar) -> bool {
        unsafe { vf::check(tok::STATE[self.0.serial] == 1 && tok::STATE[o.0.serial] == 1, 903); }
        vf::any_bool()
    }
}
impl Eq for Liar {}

#[no_mangle]
pub extern "C-unwind" fn h_c17_disjoint() {
    tok::reset();
    let mut m: Map<Liar, Tok, N> = Map::new();
    let n = vf::any_usize();
    vf::assume(n <= N);
    let mut i = 0;
    while i < N {
        if i < n {
            // checked_insert never panics; the oracle decides whether it appends or replaces
            let _ = m.checked_insert(Liar(Tok::new(i as u8)), Tok::new(100 + i as u8));
        }
        i += 1;
    }
    vf::check(m.len() <= N, 1);
    let (a, b, c) = (Liar(Tok::new(1)), Liar(Tok::new(2)), Liar(Tok::new(3)));
    let mut got = [0usize; 3];
    let panicked = vf::catch(|| {
        let [x, y, z] = m.get_disjoint_mut([&a, &b, &c]);
        let px = x.map(|r| r as *mut Tok as usize).unwrap_or(0);
        let py = y.map(|r| r as *mut Tok as usize).unwrap_or(0);
        let pz = z.map(|r| r as *mut Tok as usize).unwrap_or(0);
        got = [px, py, pz];
    });
    if panicked { vf::reach(1); } else {
        vf::reach(2);
        vf::check(got[0] == 0 || (got[0] != got[1] && got[0] != got[2]), 2);
        vf::check(got[1] == 0 || got[1] != got[2], 3);
    }
    let mut total = 0;
    for (_k, v) in m.iter() { total += 1; unsafe { vf::check(tok::STATE[v.serial] == 1, 4); } }
    vf::check(total == m.len(), 5);
    drop(m); drop(a); drop(b); drop(c);
    unsafe { vf::check(tok::DROPPED == tok::CREATED, 302); }
}
