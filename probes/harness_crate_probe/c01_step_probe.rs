#![cfg_attr(feature = "cbmc", no_std)]
pub mod tok;
pub mod vf;
use micromap::Map;
use tok::Tok;

const N: usize = 3;

pub struct Model { n: usize, keys: [u8; N], vals: [u8; N] }
impl Model {
    fn get(&self, k: u8) -> Option<u8> {
        let mut i = 0;
        while i < N { if i < self.n && self.keys[i] == k { return Some(self.vals[i]); } i += 1; }
        None
    }
    fn remove(&mut self, k: u8) -> Option<u8> {
        let mut i = 0;
        while i < N {
            if i < self.n && self.keys[i] == k {
                let v = self.vals[i];
                self.n -= 1;
                self.keys[i] = self.keys[self.n];
                self.vals[i] = self.vals[self.n];
                return Some(v);
            }
            i += 1;
        }
        None
    }
    fn insert(&mut self, k: u8, v: u8) -> Option<u8> {
        let mut i = 0;
        while i < N { if i < self.n && self.keys[i] == k { let o = self.vals[i]; self.vals[i] = v; return Some(o); } i += 1; }
        self.keys[self.n] = k; self.vals[self.n] = v; self.n += 1;
        None
    }
}

fn any_map() -> (Map<Tok, Tok, N>, Model) {
    let n = vf::any_usize();
    vf::assume(n <= N);
    let mut md = Model { n: 0, keys: [0; N], vals: [0; N] };
    let mut m: Map<Tok, Tok, N> = Map::new();
    let mut i = 0;
    while i < N {
        if i < n {
            let k = vf::any_u8();
            let v = vf::any_u8();
            vf::assume(md.get(k).is_none());
            md.insert(k, v);
            let r = m.insert(Tok::new(k), Tok::new(v));
            vf::check(r.is_none(), 100);
        }
        i += 1;
    }
    (m, md)
}

fn observe(m: &Map<Tok, Tok, N>, md: &Model) {
    vf::check(m.len() == md.n, 201);
    vf::check(m.is_empty() == (md.n == 0), 205);
    vf::check(m.len() <= m.capacity(), 206);
    let q = vf::any_u8();
    let probe = Tok::new(q);
    vf::check(m.get(&probe).map(|t| t.key) == md.get(q), 204);
    let mut cnt = 0usize;
    let mut total = 0usize;
    for (k, v) in m.iter() {
        total += 1;
        if k.key == q { cnt += 1; vf::check(Some(v.key) == md.get(q), 207); }
    }
    vf::check(total == md.n, 202);
    vf::check(cnt == md.get(q).is_some() as usize, 203);
}

#[no_mangle]
pub extern "C-unwind" fn h_c01_remove() {
    tok::reset();
    let (mut m, mut md) = any_map();
    let k = vf::any_u8();
    let kt = Tok::new(k);
    let r = m.remove(&kt);
    let e = md.remove(k);
    vf::check(r.as_ref().map(|t| t.key) == e, 1);
    if e.is_some() { vf::reach(1); } else { vf::reach(2); }
    observe(&m, &md);
    drop(r); drop(kt); drop(m);
    unsafe { vf::check(tok::DROPPED == tok::CREATED, 302); }
}

#[no_mangle]
pub extern "C-unwind" fn h_c01_insert() {
    tok::reset();
    let (mut m, mut md) = any_map();
    let k = vf::any_u8();
    let v = vf::any_u8();
    vf::assume(md.n < N || md.get(k).is_some());
    let r = m.insert(Tok::new(k), Tok::new(v));
    let e = md.insert(k, v);
    vf::check(r.as_ref().map(|t| t.key) == e, 1);
    observe(&m, &md);
    drop(r); drop(m);
    unsafe { vf::check(tok::DROPPED == tok::CREATED, 302); }
}


impl Model {
    fn retain(&mut self, mask: u8) {
        let mut i = 0;
        while i < self.n {
            if (mask >> (self.keys[i] % 8)) & 1 == 1 { i += 1; } else {
                self.n -= 1;
                self.keys[i] = self.keys[self.n];
                self.vals[i] = self.vals[self.n];
            }
        }
    }
}

fn step(m: &mut Map<Tok, Tok, N>, md: &mut Model) {
    let op = vf::any_u8();
    let k = vf::any_u8();
    let v = vf::any_u8();
    if op == 0 {
        vf::assume(md.n < N || md.get(k).is_some());
        let r = m.insert(Tok::new(k), Tok::new(v));
        let e = md.insert(k, v);
        vf::check(r.as_ref().map(|t| t.key) == e, 11);
    } else if op == 1 {
        let kt = Tok::new(k);
        let r = m.remove(&kt);
        let e = md.remove(k);
        vf::check(r.as_ref().map(|t| t.key) == e, 12);
    } else if op == 2 {
        m.retain(|kk, _| (k >> (kk.key % 8)) & 1 == 1);
        md.retain(k);
    } else if op == 3 {
        m.clear();
        md.n = 0;
    } else {
        let full_absent = md.n == N && md.get(k).is_none();
        let r = m.checked_insert(Tok::new(k), Tok::new(v));
        if full_absent { vf::check(r.is_none(), 13); } else {
            let e = md.insert(k, v);
            vf::check(r.map(|o| o.map(|t| t.key)) == Some(e), 14);
        }
    }
    observe(m, md);
}

#[no_mangle]
pub extern "C-unwind" fn h_hist3() {
    tok::reset();
    let mut m: Map<Tok, Tok, N> = Map::new();
    let mut md = Model { n: 0, keys: [0; N], vals: [0; N] };
    step(&mut m, &mut md);
    step(&mut m, &mut md);
    step(&mut m, &mut md);
    drop(m);
    unsafe { vf::check(tok::DROPPED == tok::CREATED, 302); }
}

#[no_mangle]
pub extern "C-unwind" fn h_hist4() {
    tok::reset();
    let mut m: Map<Tok, Tok, N> = Map::new();
    let mut md = Model { n: 0, keys: [0; N], vals: [0; N] };
    step(&mut m, &mut md);
    step(&mut m, &mut md);
    step(&mut m, &mut md);
    step(&mut m, &mut md);
    drop(m);
    unsafe { vf::check(tok::DROPPED == tok::CREATED, 302); }
}

#[cfg(kani)]
mod kproofs {
    #[kani::proof]
    #[kani::unwind(5)]
    fn k_c01_remove() { super::h_c01_remove() }
    #[kani::proof]
    #[kani::unwind(5)]
    fn k_c01_insert() { super::h_c01_insert() }
}
