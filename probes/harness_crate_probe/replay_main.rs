fn main() {
    let a: Vec<String> = std::env::args().collect();
    let v: Vec<u64> = a[2].split(',').filter(|s| !s.is_empty()).map(|s| s.parse().unwrap()).collect();
    b3::vf::set_vector(v);
    std::panic::set_hook(Box::new(|_| {}));
    match a[1].as_str() {
        "h_c04_clone" => b3::h_c04_clone(),
        "h_c04_retain" => b3::h_c04_retain(),
        _ => panic!("unknown harness"),
    }
    let f = b3::vf::failed();
    if f.is_empty() { println!("REPLAY-OK no check failed"); } else { println!("REPRODUCED checks={:?}", f); }
}
