#![cfg_attr(feature = "cbmc", no_std)]
pub mod tok;
pub mod vf;
use micromap::Map;
use tok::Tok;

const N: usize = 3;

fn any_map() -> (Map<Tok, Tok, N>, usize, [u8; N], [u8; N]) {
    let n = vf::any_usize();
    vf::assume(n <= N);
    let mut keys = [0u8; N];
    let mut vals = [0u8; N];
    let mut m: Map<Tok, Tok, N> = Map::new();
    let mut i = 0;
    while i < N {
        if i < n {
            keys[i] = vf::any_u8();
            vals[i] = vf::any_u8();
            let mut j = 0;
            while j < i { vf::assume(keys[j] != keys[i]); j += 1; }
            let r = m.insert(Tok::new(keys[i]), Tok::new(vals[i]));
            vf::check(r.is_none(), 100);
        }
        i += 1;
    }
    (m, n, keys, vals)
}

fn well_formed(m: &Map<Tok, Tok, N>, n: usize, keys: &[u8; N], vals: &[u8; N]) {
    vf::check(m.len() == n, 201);
    let q = vf::any_u8();
    let mut cnt = 0usize;
    let mut total = 0usize;
    for (k, v) in m.iter() {
        total += 1;
        if k.key == q { cnt += 1; }
        let _ = v;
    }
    vf::check(total == n, 202);
    let mut expect = 0usize;
    let mut i = 0;
    while i < N { if i < n && keys[i] == q { expect += 1; vf::check(m.get(&Tok::new(q)).map(|t| t.key) == Some(vals[i]), 204); } i += 1; }
    vf::check(cnt == expect, 203);
}

/// C04: clone with one injected panic among its callbacks
#[no_mangle]
pub extern "C-unwind" fn h_c04_clone() {
    tok::reset();
    let (m, n, keys, vals) = any_map();
    let fa = vf::any_usize();
    unsafe { tok::FAULT_AT = tok::CALLS + fa; }
    let mut out: Option<Map<Tok, Tok, N>> = None;
    let panicked = vf::catch(|| { out = Some(m.clone()); });
    unsafe { tok::FAULT_AT = usize::MAX; }
    if panicked { vf::reach(1); } else { vf::reach(2); }
    well_formed(&m, n, &keys, &vals);
    if let Some(c) = out.as_ref() { well_formed(c, n, &keys, &vals); }
    drop(out);
    drop(m);
    unsafe { vf::check(tok::DROPPED <= tok::CREATED, 301); }
    if !panicked { unsafe { vf::check(tok::DROPPED == tok::CREATED, 302); } }
}

/// C04: retain
#[no_mangle]
pub extern "C-unwind" fn h_c04_retain() {
    tok::reset();
    let (mut m, _n, _keys, _vals) = any_map();
    let mask = vf::any_u8();
    let fa = vf::any_usize();
    unsafe { tok::FAULT_AT = tok::CALLS + fa; }
    let panicked = vf::catch(|| { m.retain(|k, _| (mask >> (k.key % 8)) & 1 == 1); });
    unsafe { tok::FAULT_AT = usize::MAX; }
    if panicked { vf::reach(1); } else { vf::reach(2); }
    vf::check(m.len() <= N, 210);
    let mut total = 0;
    for (k, v) in m.iter() { total += 1; let _ = (k == k, v == v); }
    vf::check(total == m.len(), 211);
    drop(m);
    unsafe { vf::check(tok::DROPPED <= tok::CREATED, 301); }
}
