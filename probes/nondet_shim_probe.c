#include <stdint.h>
uint8_t __VERIFIER_nondet_u8(void); uint64_t __VERIFIER_nondet_u64(void);
uint8_t nondet_u8(void) { return __VERIFIER_nondet_u8(); }
uint64_t nondet_usize(void) { return __VERIFIER_nondet_u64(); }
void vf_assume(unsigned char c) { __CPROVER_assume(c); }
void vf_assert(unsigned char c, uint32_t code) { __CPROVER_assert(c, "VF_ASSERT harness assertion"); }
void tok_drop(uint32_t t) {} unsigned char tok_eq(uint32_t a, uint32_t b) { return a==b; } uint32_t tok_clone(uint32_t a) { return a; }
