#include <stdint.h>
extern int __unw;
uint32_t nondet_u32(void); uint64_t nondet_u64(void); int nondet_int(void);
void op_clone(unsigned char*, unsigned char*);
void op_clear(unsigned char*);
void op_drop(unsigned char*);
void op_retain(unsigned char*, uint32_t);

#define MAXTOK 32
unsigned char ledger[MAXTOK]; /* 0 none, 1 live, 2 dropped */
unsigned next_id = 0;
int fault_at, calls = 0;

static int fault(void) { if (calls++ == fault_at) { __unw = 1; return 1; } return 0; }
/* token = id<<8 | key */
static uint32_t mk(uint32_t key) { unsigned id = next_id++; __CPROVER_assert(id < MAXTOK, "tok space"); ledger[id] = 1; return (id << 8) | (key & 0xff); }
void tok_drop(uint32_t t) {
  unsigned id = t >> 8;
  __CPROVER_assert(id < MAXTOK && ledger[id] == 1, "LEDGER: drop of dead/garbage token (double drop or uninit)");
  if (id < MAXTOK) ledger[id] = 2;
  (void)fault();
}
unsigned char tok_eq(uint32_t a, uint32_t b) {
  __CPROVER_assert((a>>8) < MAXTOK && ledger[a>>8] == 1 && (b>>8) < MAXTOK && ledger[b>>8] == 1, "LEDGER: compare dead token");
  if (fault()) return 0;
  return (a & 0xff) == (b & 0xff);
}
uint32_t tok_clone(uint32_t a) {
  __CPROVER_assert((a>>8) < MAXTOK && ledger[a>>8] == 1, "LEDGER: clone dead token");
  if (fault()) return 0;
  return mk(a & 0xff);
}

struct map3 { unsigned char b[32]; } __attribute__((aligned(8)));

static void build(struct map3 *m) {
  uint64_t n = nondet_u64(); __CPROVER_assume(n <= 3);
  *(uint64_t*)(m->b) = n;
  for (unsigned i = 0; i < 3; i++) if (i < n) { *(uint32_t*)(m->b+8+8*i) = mk(nondet_u32()); *(uint32_t*)(m->b+12+8*i) = mk(nondet_u32()); }
}

void h_clone(void) {
  struct map3 m, out; build(&m);
  fault_at = nondet_int();
  op_clone((unsigned char*)&m, (unsigned char*)&out);
  if (__unw) { __unw = 0; fault_at = -1; }
  else { fault_at = -1; op_drop((unsigned char*)&out); }
  op_drop((unsigned char*)&m);
}
void h_clear(void) {
  struct map3 m; build(&m);
  fault_at = nondet_int();
  op_clear((unsigned char*)&m);
  if (__unw) { __unw = 0; }
  fault_at = -1;
  op_drop((unsigned char*)&m);
}
void h_retain(void) {
  struct map3 m; build(&m);
  fault_at = nondet_int();
  op_retain((unsigned char*)&m, nondet_u32());
  if (__unw) { __unw = 0; }
  fault_at = -1;
  op_drop((unsigned char*)&m);
}
