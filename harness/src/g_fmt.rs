//! Group `g_fmt`: Debug / Display render exactly the current (or not-yet-yielded) entries (C19), and formatting
//! into a non-allocating sink makes no allocator call (C06).  Built as a fat-LTO closed module so that libcore's
//! real formatting machinery (core::fmt::write, DebugMap/DebugSet/DebugList, PadAdapter, Formatter::pad) is encoded.
//! `D` renders as one ASCII character; the output is captured in a fixed `Buf` and compared byte-for-byte with a
//! string the harness builds independently from the observed entry sequence.
//! ids 1901 rendered length, 1902 rendered bytes, 1903 formatting returned Err, 1904 container changed by formatting
use crate::model::*;
use crate::vf;
use core::fmt::{self, Write};
use micromap::{Map, Set};

/// longest rendering in the bounds: `{:#?}` of a 3-entry map = 33 bytes, `[(k, v), (k, v), (k, v)]` = 26 bytes
pub const BUF: usize = 40;
pub struct Buf { pub b: [u8; BUF], pub n: usize, pub overflow: bool }
impl Buf { pub fn new() -> Buf { Buf { b: [0; BUF], n: 0, overflow: false } } fn push(&mut self, c: u8) { if self.n < BUF { self.b[self.n] = c; self.n += 1; } else { self.overflow = true; } } }
impl Write for Buf {
    fn write_str(&mut self, s: &str) -> fmt::Result {
        for &c in s.as_bytes() { self.push(c); }
        Ok(())
    }
}

#[derive(PartialEq, Eq, Clone, Copy)]
pub struct D(pub u8);
impl D { fn disp(self) -> u8 { b'0' + self.0 % 10 } fn dbg(self) -> u8 { b'a' + self.0 % 26 } }
impl fmt::Display for D { fn fmt(&self, f: &mut fmt::Formatter<'_>) -> fmt::Result { f.write_char(self.disp() as char) } }
impl fmt::Debug for D { fn fmt(&self, f: &mut fmt::Formatter<'_>) -> fmt::Result { f.write_char(self.dbg() as char) } }

fn any_d_map<const N: usize>() -> (Map<D, D, N>, usize) {
    let mut m: Map<D, D, N> = empty_map();
    let n = vf::any_usize();
    vf::assume(n <= N);
    let mut i = 0;
    while i < N {
        let (k, v) = (vf::any_u8(), vf::any_u8());
        if i < n { vf::assume(!m.contains_key(&D(k))); m.insert(D(k), D(v)); }
        i += 1;
    }
    // a removal in the middle, so that the slot order is not simply the insertion order
    let r = vf::any_u8();
    if vf::any_bool() { m.remove(&D(r)); }
    let n = m.len();
    (m, n)
}
fn any_d_set<const N: usize>() -> (Set<D, N>, usize) {
    let mut s: Set<D, N> = empty_set();
    let n = vf::any_usize();
    vf::assume(n <= N);
    let mut i = 0;
    while i < N {
        let k = vf::any_u8();
        if i < n { vf::assume(!s.contains(&D(k))); s.insert(D(k)); }
        i += 1;
    }
    let r = vf::any_u8();
    if vf::any_bool() { s.remove(&D(r)); }
    let n = s.len();
    (s, n)
}

fn same(buf: &Buf, exp: &Buf) {
    vf::check(!buf.overflow && !exp.overflow, 1901);
    vf::check(buf.n == exp.n, 1901);
    let mut i = 0;
    while i < BUF { if i < exp.n { vf::check(buf.b[i] == exp.b[i], 1902); } i += 1; }
}

/// expected renderings, built from an independently observed sequence of (key, value) / element characters
fn exp_pairs(e: &mut Buf, seq: &[(u8, u8)], open: u8, close: u8, alt: bool, tuple: bool) {
    e.push(open);
    if alt && !seq.is_empty() { e.push(b'\n'); }
    let mut first = true;
    for &(k, v) in seq {
        if alt {
            for _ in 0..4 { e.push(b' '); }
            if tuple { for c in [b'(', b'\n'] { e.push(c); } for _ in 0..8 { e.push(b' '); } e.push(k); e.push(b','); e.push(b'\n'); for _ in 0..8 { e.push(b' '); } e.push(v); e.push(b','); e.push(b'\n'); for _ in 0..4 { e.push(b' '); } e.push(b')'); }
            else { e.push(k); e.push(b':'); e.push(b' '); e.push(v); }
            e.push(b','); e.push(b'\n');
        } else {
            if !first { e.push(b','); e.push(b' '); }
            if tuple { e.push(b'('); e.push(k); e.push(b','); e.push(b' '); e.push(v); e.push(b')'); }
            else { e.push(k); e.push(b':'); e.push(b' '); e.push(v); }
        }
        first = false;
    }
    e.push(close);
}
fn exp_items(e: &mut Buf, seq: &[u8], open: u8, close: u8, alt: bool) {
    e.push(open);
    if alt && !seq.is_empty() { e.push(b'\n'); }
    let mut first = true;
    for &k in seq {
        if alt { for _ in 0..4 { e.push(b' '); } e.push(k); e.push(b','); e.push(b'\n'); }
        else { if !first { e.push(b','); e.push(b' '); } e.push(k); }
        first = false;
    }
    e.push(close);
}

/// `buf` is the plain (non-alternate) debug_list rendering of exactly the multiset `items` (pairs rendered as `(k, v)`,
/// single items as `k`), in ANY order: the property fixes which entries are listed, not their order.
fn same_list_any_order(buf: &Buf, pairs: bool, ks: &[u8], vs: &[u8]) {
    let n = ks.len();
    let w = if pairs { 8 } else { 3 }; // "(k, v), " / "k, "
    let want_len = if n == 0 { 2 } else { 2 + n * w - 2 };
    vf::check(!buf.overflow && buf.n == want_len, 1901);
    vf::check(buf.b[0] == b'[' && (buf.n == 0 || buf.b[(buf.n - 1) % BUF] == b']'), 1902);
    let (qk, qv) = (vf::any_u8(), vf::any_u8());
    let (mut in_buf, mut in_items) = (0usize, 0usize);
    let mut i = 0;
    while i < n {
        let o = 1 + i * w;
        if o + w <= BUF + 2 {
            if pairs {
                vf::check(buf.b[o % BUF] == b'(' && buf.b[(o + 2) % BUF] == b',' && buf.b[(o + 3) % BUF] == b' ' && buf.b[(o + 5) % BUF] == b')', 1902);
                if buf.b[(o + 1) % BUF] == qk && buf.b[(o + 4) % BUF] == qv { in_buf += 1; }
                if i + 1 < n { vf::check(buf.b[(o + 6) % BUF] == b',' && buf.b[(o + 7) % BUF] == b' ', 1902); }
            } else {
                if buf.b[o % BUF] == qk { in_buf += 1; }
                if i + 1 < n { vf::check(buf.b[(o + 1) % BUF] == b',' && buf.b[(o + 2) % BUF] == b' ', 1902); }
            }
        }
        if ks[i] == qk && (!pairs || vs[i] == qv) { in_items += 1; }
        i += 1;
    }
    vf::check(in_buf == in_items, 1902); // for every (k, v): as many times in the text as still to be yielded
}

/// Map: `{}` Display, `{:?}`, `{:#?}`
pub fn c19_map<const N: usize, const W: u8>() {
    let (m, n) = any_d_map::<N>();
    let mut dseq = [(0u8, 0u8); N];
    let mut gseq = [(0u8, 0u8); N];
    let mut i = 0;
    for (k, v) in m.iter() { if i < N { dseq[i] = (k.disp(), v.disp()); gseq[i] = (k.dbg(), v.dbg()); } i += 1; }
    vf::check(i == n, 202);
    let which = W; // one rendering per obligation (const parameter): keeps each query small
    let (mut buf, mut exp) = (Buf::new(), Buf::new());
    // 3: Display under the alternate flag -- the container-level layout of Display does not depend on formatter flags
    let r = match which { 0 => write!(buf, "{}", m), 1 => write!(buf, "{:?}", m), 3 => write!(buf, "{:#}", m), _ => write!(buf, "{:#?}", m) };
    vf::check(r.is_ok(), 1903);
    match which {
        0 | 3 => { vf::reach(1); exp_pairs(&mut exp, &dseq[..n], b'{', b'}', false, false) }
        1 => { vf::reach(1); exp_pairs(&mut exp, &gseq[..n], b'{', b'}', false, false) }
        _ => { vf::reach(1); exp_pairs(&mut exp, &gseq[..n], b'{', b'}', true, false) }
    }
    same(&buf, &exp);
    // formatting never changes the container
    let mut j = 0;
    for (k, v) in m.iter() { if j < N { vf::check(gseq[j] == (k.dbg(), v.dbg()), 1904); } j += 1; }
    vf::check(j == n && m.len() == n, 1904);
}

/// Elements whose rendering is ONE chunk of 66 or 70 bytes (a single `write_str`): any staging buffer, chunking or length-dependent
/// path inside the container's Display/Debug sees a piece longer than the usual small-buffer sizes (16, 32, 64).
/// W: 0 `{}` of `Map<D, Lg, N>`, 1 `{}` of `Set<Lg, N>`, 2 `{:?}` of the map, 3 `{:?}` of the set, 4 `{}` of `Map<Lg, D, N>` (long key).
const LONG_A: &str = "AbcdefghijklmnopqrstuvwxyzabcdefghijklmnopqrstuvwxyzabcdefghijklmZ";       // 66 bytes
const LONG_B: &str = "BcdefghijklmnopqrstuvwxyzabcdefghijklmnopqrstuvwxyzabcdefghijklmnopqY";   // 70 bytes
#[derive(PartialEq, Eq, Clone, Copy)]
pub struct Lg(pub bool);
impl Lg { fn text(self) -> &'static str { if self.0 { LONG_A } else { LONG_B } } }
impl fmt::Display for Lg { fn fmt(&self, f: &mut fmt::Formatter<'_>) -> fmt::Result { f.write_str(self.text()) } }
impl fmt::Debug for Lg { fn fmt(&self, f: &mut fmt::Formatter<'_>) -> fmt::Result { f.write_str(self.text()) } }
pub const BUFL: usize = 160;
pub struct BufL { pub b: [u8; BUFL], pub n: usize, pub overflow: bool }
impl BufL { fn new() -> BufL { BufL { b: [0; BUFL], n: 0, overflow: false } } fn push(&mut self, c: u8) { if self.n < BUFL { self.b[self.n] = c; self.n += 1; } else { self.overflow = true; } } fn text(&mut self, s: &str) { for &c in s.as_bytes() { self.push(c); } } }
impl Write for BufL { fn write_str(&mut self, s: &str) -> fmt::Result { self.text(s); Ok(()) } }
pub fn c19_long<const N: usize, const W: u8>() {
    let (mut buf, mut exp) = (BufL::new(), BufL::new());
    let (a, b, k1, k2) = (vf::any_bool(), vf::any_bool(), vf::any_u8(), vf::any_u8());
    let n = vf::any_usize();
    vf::assume(n <= N && n <= 2 && (n < 2 || (a != b && D(k1) != D(k2))));
    let r;
    if W == 0 || W == 2 {
        let mut m: Map<D, Lg, N> = empty_map();
        if n >= 1 { m.insert(D(k1), Lg(a)); }
        if n >= 2 { m.insert(D(k2), Lg(b)); }
        r = if W == 0 { write!(buf, "{}", m) } else { write!(buf, "{:?}", m) };
        exp.push(b'{');
        let mut first = true;
        for (k, v) in m.iter() { if !first { exp.text(", "); } first = false; exp.push(if W == 0 { k.disp() } else { k.dbg() }); exp.text(": "); exp.text(v.text()); }
        exp.push(b'}');
        vf::check(m.len() == n, 1904);
    } else if W == 4 {
        let mut m: Map<Lg, D, N> = empty_map();
        if n >= 1 { m.insert(Lg(a), D(k1)); }
        if n >= 2 { m.insert(Lg(b), D(k2)); }
        r = write!(buf, "{}", m);
        exp.push(b'{');
        let mut first = true;
        for (k, v) in m.iter() { if !first { exp.text(", "); } first = false; exp.text(k.text()); exp.text(": "); exp.push(v.disp()); }
        exp.push(b'}');
        vf::check(m.len() == n, 1904);
    } else {
        let mut s: Set<Lg, N> = empty_set();
        if n >= 1 { s.insert(Lg(a)); }
        if n >= 2 { s.insert(Lg(b)); }
        r = if W == 1 { write!(buf, "{}", s) } else { write!(buf, "{:?}", s) };
        exp.push(b'{');
        let mut first = true;
        for k in s.iter() { if !first { exp.text(", "); } first = false; exp.text(k.text()); }
        exp.push(b'}');
        vf::check(s.len() == n, 1904);
    }
    vf::check(r.is_ok(), 1903);
    vf::check(!buf.overflow && !exp.overflow && buf.n == exp.n, 1901);
    let mut i = 0;
    while i < BUFL { if i < exp.n { vf::check(buf.b[i] == exp.b[i], 1902); } i += 1; }
    if n >= 1 { vf::reach(1); } else { vf::reach(2); }
}

/// Set: `{}` Display, `{:?}`, `{:#?}`
pub fn c19_set<const N: usize, const W: u8>() {
    let (s, n) = any_d_set::<N>();
    let mut dseq = [0u8; N];
    let mut gseq = [0u8; N];
    let mut i = 0;
    for k in s.iter() { if i < N { dseq[i] = k.disp(); gseq[i] = k.dbg(); } i += 1; }
    vf::check(i == n, 202);
    let which = W; // one rendering per obligation (const parameter): keeps each query small
    let (mut buf, mut exp) = (Buf::new(), Buf::new());
    let r = match which { 0 => write!(buf, "{}", s), 1 => write!(buf, "{:?}", s), 3 => write!(buf, "{:#}", s), _ => write!(buf, "{:#?}", s) };
    vf::check(r.is_ok(), 1903);
    match which {
        0 | 3 => { vf::reach(1); exp_items(&mut exp, &dseq[..n], b'{', b'}', false) }
        1 => { vf::reach(1); exp_items(&mut exp, &gseq[..n], b'{', b'}', false) }
        _ => { vf::reach(1); exp_items(&mut exp, &gseq[..n], b'{', b'}', true) }
    }
    same(&buf, &exp);
    vf::check(s.len() == n, 1904);
}

/// Debug of the map iterators after a symbolic consumption prefix: exactly the not-yet-yielded entries.
/// The iterator is formatted after `j` steps and then consumed to the end: what it goes on to yield is what the
/// text must list (as a multiset -- neither the yield order nor the listing order is fixed by the property).
pub fn c19_map_iters<const N: usize, const W: u8>() {
    let (mut m, n) = any_d_map::<N>();
    let j = vf::any_usize();
    vf::assume(j <= n);
    let mut buf = Buf::new();
    let (mut rk, mut rv) = ([0u8; N], [0u8; N]);
    let mut rn = 0usize;
    macro_rules! go {
        ($mk:expr, $k:expr, $v:expr) => {{
            let mut it = $mk;
            let mut i = 0;
            while i < N { if i < j { let _ = it.next(); } i += 1; }
            let r = write!(buf, "{:?}", it);
            for x in it { if rn < N { rk[rn] = $k(&x); rv[rn] = $v(&x); } rn += 1; }
            r
        }};
    }
    let (ok, pairs) = match W {
        0 => (go!(m.iter(), |x: &(&D, &D)| x.0.dbg(), |x: &(&D, &D)| x.1.dbg()), true),
        1 => (go!(m.keys(), |x: &&D| x.dbg(), |_x: &&D| 0), false),
        2 => (go!(m.values(), |x: &&D| x.dbg(), |_x: &&D| 0), false),
        3 => (go!(m.iter_mut(), |x: &(&D, &mut D)| x.0.dbg(), |x: &(&D, &mut D)| x.1.dbg()), true),
        4 => (go!(m.values_mut(), |x: &&mut D| x.dbg(), |_x: &&mut D| 0), false),
        5 => (go!(m.drain(), |x: &(D, D)| x.0.dbg(), |x: &(D, D)| x.1.dbg()), true),
        6 => (go!(m.into_iter(), |x: &(D, D)| x.0.dbg(), |x: &(D, D)| x.1.dbg()), true),
        7 => (go!(m.into_keys(), |x: &D| x.dbg(), |_x: &D| 0), false),
        _ => (go!(m.into_values(), |x: &D| x.dbg(), |_x: &D| 0), false),
    };
    vf::reach(1);
    vf::check(ok.is_ok(), 1903);
    vf::check(rn == n - j, 1901);
    let rn = if rn < N { rn } else { N };
    same_list_any_order(&buf, pairs, &rk[..rn], &rv[..rn]);
}

/// zero-sized key and value: every slot has the same address, so a Debug helper that walks a pointer range lists
/// nothing.  W 0..8 as in `c19_map_iters`; 9 Map `{:?}`, 10 Map `{}`, 11 Set `{:?}`
#[derive(PartialEq, Eq, Clone, Copy)]
pub struct Z;
impl fmt::Display for Z { fn fmt(&self, f: &mut fmt::Formatter<'_>) -> fmt::Result { f.write_char('z') } }
impl fmt::Debug for Z { fn fmt(&self, f: &mut fmt::Formatter<'_>) -> fmt::Result { f.write_char('z') } }
pub fn c19_zst<const N: usize, const W: u8>() {
    let mut m: Map<Z, Z, N> = unsafe { vf::garbage() };
    vf::assume(m.len() == 0);
    let (put, del, j) = (vf::any_bool(), vf::any_bool(), vf::any_usize());
    if put { vf::check(m.insert(Z, Z).is_none(), 100); }
    if put && del { vf::check(m.remove(&Z).is_some(), 100); }
    let n = if put && !del { 1usize } else { 0 };
    vf::assume(j <= n);
    let mut buf = Buf::new();
    let mut rn = 0usize;
    macro_rules! go {
        ($mk:expr) => {{
            let mut it = $mk;
            if j > 0 { let _ = it.next(); }
            let r = write!(buf, "{:?}", it);
            for _x in it { rn += 1; }
            r
        }};
    }
    if n > 0 { vf::reach(1); } else { vf::reach(2); }
    let zs = [b'z'; 1];
    if W >= 9 {
        let mut exp = Buf::new();
        let seq = [(b'z', b'z')];
        let r = match W {
            9 => { exp_pairs(&mut exp, &seq[..n], b'{', b'}', false, false); write!(buf, "{:?}", m) }
            10 => { exp_pairs(&mut exp, &seq[..n], b'{', b'}', false, false); write!(buf, "{}", m) }
            _ => { let mut s: Set<Z, N> = empty_set(); if n > 0 { s.insert(Z); } exp_items(&mut exp, &zs[..n], b'{', b'}', false); write!(buf, "{:?}", s) }
        };
        vf::check(r.is_ok(), 1903);
        same(&buf, &exp);
        vf::check(m.len() == n, 1904);
        return;
    }
    let (ok, pairs) = match W {
        0 => (go!(m.iter()), true),
        1 => (go!(m.keys()), false),
        2 => (go!(m.values()), false),
        3 => (go!(m.iter_mut()), true),
        4 => (go!(m.values_mut()), false),
        5 => (go!(m.drain()), true),
        6 => (go!(m.into_iter()), true),
        7 => (go!(m.into_keys()), false),
        _ => (go!(m.into_values()), false),
    };
    vf::check(ok.is_ok(), 1903);
    vf::check(rn == n - j, 1901);
    let rn = if rn < 1 { rn } else { 1 };
    same_list_any_order(&buf, pairs, &zs[..rn], &zs[..rn]);
}

/// Debug of the lazy set-algebra iterators after a consumption prefix
pub fn c19_set_iters<const N: usize, const M: usize, const W: u8>() {
    let (a, _) = any_d_set::<N>();
    let (b, _) = any_d_set::<M>();
    let j = vf::any_usize();
    vf::assume(j <= N + M);
    let which = W;
    let (mut buf, mut exp) = (Buf::new(), Buf::new());
    let mut rest = [0u8; 8];
    let mut rn = 0;
    macro_rules! go { ($mk:expr) => {{
        let mut it = $mk; let mut i = 0; while i < N + M { if i < j { let _ = it.next(); } i += 1; }
        let r = write!(buf, "{:?}", it);
        for k in it { if rn < 8 { rest[rn] = k.dbg(); } rn += 1; }
        r
    }}; }
    let ok = match which {
        0 => { vf::reach(1); go!(a.union(&b)) }
        1 => { vf::reach(1); go!(a.intersection(&b)) }
        2 => { vf::reach(1); go!(a.difference(&b)) }
        _ => { vf::reach(1); go!(a.symmetric_difference(&b)) }
    };
    vf::check(ok.is_ok(), 1903);
    let _ = &mut exp;
    let rn = if rn < 8 { rn } else { 8 };
    same_list_any_order(&buf, false, &rest[..rn], &rest[..rn]);
}

/// An element whose Debug output depends on the formatter: first byte is upper case iff the alternate flag reached it, and it
/// spans two lines, so that the indentation std's pretty printer adds after a newline inside an entry is observable too.
#[derive(PartialEq, Eq, Clone, Copy)]
pub struct E(pub u8);
impl fmt::Debug for E {
    fn fmt(&self, f: &mut fmt::Formatter<'_>) -> fmt::Result {
        let c = if f.alternate() { b'A' } else { b'a' } + self.0 % 26;
        f.write_char(c as char)?;
        f.write_char('\n')?;
        f.write_char((b'0' + self.0 % 10) as char)
    }
}

/// `{:?}` (W=1) and `{:#?}` (W=2) of a map / set whose elements render over two lines and look at the alternate flag:
/// the flag must be passed down to the entries and nested lines must be indented exactly as the standard builders do
pub fn c19_nested<const N: usize, const W: u8>() {
    let mut m: Map<D, E, N> = empty_map();
    let mut s: Set<E, N> = empty_set();
    let n = vf::any_usize();
    vf::assume(n <= N);
    let mut i = 0;
    while i < N {
        let (k, v) = (vf::any_u8(), vf::any_u8());
        if i < n { vf::assume(!m.contains_key(&D(k)) && !s.contains(&E(v))); m.insert(D(k), E(v)); s.insert(E(v)); }
        i += 1;
    }
    let alt = W == 2;
    let (mut buf, mut exp) = (Buf::new(), Buf::new());
    let r = if alt { write!(buf, "{:#?}", m) } else { write!(buf, "{:?}", m) };
    vf::check(r.is_ok(), 1903);
    exp.push(b'{');
    if alt && n > 0 { exp.push(b'\n'); }
    let mut first = true;
    for (k, v) in m.iter() {
        let (c, d) = (if alt { b'A' } else { b'a' } + v.0 % 26, b'0' + v.0 % 10);
        if alt { for _ in 0..4 { exp.push(b' '); } exp.push(k.dbg()); exp.push(b':'); exp.push(b' '); exp.push(c); exp.push(b'\n'); for _ in 0..4 { exp.push(b' '); } exp.push(d); exp.push(b','); exp.push(b'\n'); }
        else { if !first { exp.push(b','); exp.push(b' '); } exp.push(k.dbg()); exp.push(b':'); exp.push(b' '); exp.push(c); exp.push(b'\n'); exp.push(d); }
        first = false;
    }
    exp.push(b'}');
    same(&buf, &exp);
    let (mut buf, mut exp) = (Buf::new(), Buf::new());
    let r = if alt { write!(buf, "{:#?}", s) } else { write!(buf, "{:?}", s) };
    vf::check(r.is_ok(), 1903);
    exp.push(b'{');
    if alt && n > 0 { exp.push(b'\n'); }
    let mut first = true;
    for v in s.iter() {
        let (c, d) = (if alt { b'A' } else { b'a' } + v.0 % 26, b'0' + v.0 % 10);
        if alt { for _ in 0..4 { exp.push(b' '); } exp.push(c); exp.push(b'\n'); for _ in 0..4 { exp.push(b' '); } exp.push(d); exp.push(b','); exp.push(b'\n'); }
        else { if !first { exp.push(b','); exp.push(b' '); } exp.push(c); exp.push(b'\n'); exp.push(d); }
        first = false;
    }
    exp.push(b'}');
    same(&buf, &exp);
    vf::reach(1);
    vf::check(m.len() == n && s.len() == n, 1904);
}

/// C06: formatting with width / fill / alignment / precision / sign flags into the fixed sink makes no allocator
/// call and does not fail (the rendered text under such flags is not specified by C19, so it is not compared)
pub fn c06_fmt_specs<const N: usize, const W: u8>() {
    let (m, n) = any_d_map::<N>();
    let (s, sn) = any_d_set::<N>();
    let mut buf = Buf::new();
    let r = match W {
        0 => write!(buf, "{:>12}|{:<6}", m, s),
        1 => write!(buf, "{:^9.3}|{:+}", m, s),
        2 => write!(buf, "{:>14?}|{:<8?}", m, s),
        3 => write!(buf, "{:08}|{:*^11}", m, s),
        _ => write!(buf, "{:>6?}|{:<3?}", m.iter(), m.keys()),
    };
    vf::check(r.is_ok(), 1903);
    vf::check(buf.n >= 5, 1901);
    vf::reach(1);
    vf::check(m.len() == n && s.len() == sn, 1904);
}

harnesses! {
    c19_nested: [1, 1] [1, 2];
    c19_long: [1, 0] [1, 1] [1, 2] [1, 3] [1, 4];
    c06_fmt_specs: [1, 0] [1, 1] [1, 2] [1, 3] [1, 4];
    c19_map: [0, 0] [0, 1] [0, 2] [1, 0] [1, 1] [1, 2] [2, 0] [2, 1] [2, 2] [1, 3] [2, 3];
    c19_set: [0, 0] [0, 1] [0, 2] [1, 0] [1, 1] [1, 2] [2, 0] [2, 1] [2, 2] [1, 3] [2, 3];
    c19_map_iters: [1, 0] [1, 1] [1, 2] [1, 3] [1, 4] [1, 5] [1, 6] [1, 7] [1, 8] [2, 5];
    c19_set_iters: [1, 1, 0] [1, 1, 1] [1, 1, 2];
    c19_zst: [1, 0] [1, 1] [1, 2] [1, 3] [1, 4] [1, 5] [1, 6] [1, 7] [1, 8] [1, 9] [1, 10] [1, 11];
    @deep
    c19_zst: [2, 0] [2, 1] [2, 2] [2, 3] [2, 4] [2, 5] [2, 6] [2, 7] [2, 8] [2, 9] [2, 10] [2, 11];
    c19_nested: [2, 1] [2, 2];
    c19_map: [3, 0] [3, 1] [3, 2] [3, 3];
    c19_set: [3, 0] [3, 1] [3, 2] [3, 3];
    c19_map_iters: [2, 0] [2, 1] [2, 2] [2, 3] [2, 4] [2, 6] [2, 7] [2, 8] [3, 0] [3, 1] [3, 2] [3, 3] [3, 4] [3, 5] [3, 6] [3, 7] [3, 8];
    c19_set_iters: [1, 1, 3] [2, 1, 0] [2, 1, 1] [2, 1, 2] [2, 1, 3] [2, 2, 0] [2, 2, 1] [2, 2, 2] [2, 2, 3];
}
