//! Group `g_map`: single-step harnesses for the Map operations (C01, with C02/C05/C06/C12 ids riding along).
//! Every harness: arbitrary reachable pre-state -> one public operation with symbolic arguments ->
//! return value vs model (4xx), observation vs model (2xx), ledger balance (3xx/9xx).
use crate::model::*;
use crate::tok::{self, BKey, Tok};
use crate::vf;

/// insert: ids 401 return value, 402 returned object is the old value, 403 supplied key object destroyed iff key was present
pub fn c01_insert<const N: usize>() {
    tok::reset();
    let (mut m, mut md) = any_map::<N>();
    let (k, v) = (vf::any_u8(), vf::any_u8());
    vf::assume(md.n < N || md.has(k)); // overflow is C03's subject
    let (kt, vt) = (Tok::tagged(k, 1), Tok::new(v));
    let (ks, vs) = (kt.serial(), vt.serial());
    let r = m.insert(kt, vt);
    let e = md.insert(k, v, ks, vs);
    match (&r, e) {
        (Some(o), Some((ev, evs))) => {
            vf::reach(1);
            vf::check(o.key() == ev, 401);
            vf::check(o.serial() == evs && tok::live(evs), 402);
            vf::check(tok::dead(ks), 403); // the supplied (equal) key is discarded, exactly once (901)
        }
        (None, None) => {
            vf::reach(2);
            vf::check(tok::live(ks), 403);
        }
        _ => vf::check(false, 401),
    }
    observe(&m, &md);
    well_formed(&m);
    drop(r);
    finish(m);
}

/// insert_key_value: ids 411 return, 412 returned objects are the old key and value, 413 supplied key stored
pub fn c01_insert_kv<const N: usize>() {
    tok::reset();
    let (mut m, mut md) = any_map::<N>();
    let (k, v) = (vf::any_u8(), vf::any_u8());
    vf::assume(md.n < N || md.has(k));
    let (kt, vt) = (Tok::tagged(k, 1), Tok::new(v));
    let (ks, vs) = (kt.serial(), vt.serial());
    let r = m.insert_key_value(kt, vt);
    let e = md.insert_kv(k, v, ks, vs);
    match (&r, e) {
        (Some((ok, ov)), Some((eks, ev, evs))) => {
            vf::reach(1);
            vf::check(ok.key() == k && ov.key() == ev, 411);
            vf::check(ok.serial() == eks && ov.serial() == evs && tok::live(eks) && tok::live(evs), 412);
        }
        (None, None) => { vf::reach(2); }
        _ => vf::check(false, 411),
    }
    vf::check(tok::live(ks), 413);
    observe(&m, &md);
    well_formed(&m);
    drop(r);
    finish(m);
}

/// checked_insert, all three branches: ids 421 outer Option, 422 inner value, 423 rejected arguments destroyed once
pub fn c01_checked_insert<const N: usize>() {
    tok::reset();
    let (mut m, mut md) = any_map::<N>();
    let (k, v) = (vf::any_u8(), vf::any_u8());
    let (kt, vt) = (Tok::tagged(k, 1), Tok::new(v));
    let (ks, vs) = (kt.serial(), vt.serial());
    let rejected = md.n == N && !md.has(k);
    let r = m.checked_insert(kt, vt);
    if rejected {
        vf::reach(1);
        vf::check(r.is_none(), 421);
        vf::check(tok::dead(ks) && tok::dead(vs), 423);
    } else {
        let e = md.insert(k, v, ks, vs);
        match (&r, e) {
            (Some(Some(o)), Some((ev, evs))) => {
                vf::reach(2);
                vf::check(o.key() == ev && o.serial() == evs, 422);
                vf::check(tok::dead(ks), 423);
            }
            (Some(None), None) => { vf::reach(3); }
            (None, _) => vf::check(false, 421),
            _ => vf::check(false, 422),
        }
    }
    observe(&m, &md);
    well_formed(&m);
    drop(r);
    finish(m);
}

/// get / get_mut / get_key_value / contains_key, by key and by borrowed form; write-through of get_mut;
/// ids 431 get, 432 get_mut, 433 get_key_value, 434 contains_key, 435 borrowed form agrees, 436 write-through,
/// 501 reference lies inside the container (C06)
pub fn c01_lookup<const N: usize>() {
    tok::reset();
    let (mut m, mut md) = any_map::<N>();
    let q = vf::any_u8();
    let qt = Tok::new(q);
    let qb = BKey::free(q);
    let want = md.find(q);
    if want.is_some() { vf::reach(1); } else { vf::reach(2); }
    // get
    match (m.get(&qt), m.get(&qb), want) {
        (Some(a), Some(b), Some(i)) => {
            vf::check(a.key() == md.vals[i] && a.serial() == md.vs[i], 431);
            vf::check(core::ptr::eq(a, b), 435);
            vf::check(vf::ptr_within(a as *const Tok, &m), 501);
        }
        (None, None, None) => {}
        (a, b, _) => { vf::check(a.is_some() == b.is_some(), 435); vf::check(false, 431); }
    }
    // get_key_value
    match (m.get_key_value(&qt), m.get_key_value(&qb), want) {
        (Some((k, v)), Some((k2, v2)), Some(i)) => {
            vf::check(k.key() == q && k.serial() == md.ks[i] && v.serial() == md.vs[i], 433);
            vf::check(core::ptr::eq(k, k2) && core::ptr::eq(v, v2), 435);
            vf::check(vf::ptr_within(k as *const Tok, &m) && vf::ptr_within(v as *const Tok, &m), 501);
        }
        (None, None, None) => {}
        (a, b, _) => { vf::check(a.is_some() == b.is_some(), 435); vf::check(false, 433); }
    }
    // contains_key
    vf::check(m.contains_key(&qt) == want.is_some(), 434);
    vf::check(m.contains_key(&qb) == want.is_some(), 435);
    // get_mut by both forms gives the same place; a write through it is what lookups return afterwards
    let p1 = m.get_mut(&qt).map(|r| r as *mut Tok);
    let p2 = m.get_mut(&qb).map(|r| r as *mut Tok);
    vf::check(p1 == p2, 435);
    let nv = vf::any_u8();
    match (m.get_mut(&qb), want) {
        (Some(r), Some(i)) => {
            vf::check(r.serial() == md.vs[i], 432);
            let fresh = Tok::new(nv);
            md.vals[i] = nv;
            md.vs[i] = fresh.serial();
            *r = fresh; // drops the old value in place
        }
        (None, None) => {}
        _ => vf::check(false, 432),
    }
    if let Some(i) = want {
        match m.get(&qb) { Some(g) => vf::check(g.key() == nv && g.serial() == md.vs[i], 436), None => vf::check(false, 436) }
    }
    observe(&m, &md);
    well_formed(&m);
    drop(qt);
    finish(m);
}

/// Index / IndexMut: present -> same place as get; absent -> must panic and leave the map unchanged.
/// ids 441 value/address, 442 must panic when absent, 443 must not panic when present, 444 IndexMut write-through
pub fn c01_index<const N: usize>() {
    tok::reset();
    let (mut m, mut md) = any_map::<N>();
    let q = vf::any_u8();
    let qb = BKey::free(q);
    let want = md.find(q);
    if !vf::CAN_CATCH { vf::assume(want.is_some()); }
    let mut addr: *const Tok = core::ptr::null();
    let by_key = vf::any_bool(); // Index<&Q> with Q = K as well as with the borrowed form
    let qk = Tok::new(q);
    let panicked = vf::catch(|| { addr = if by_key { &m[&qk] as *const Tok } else { &m[&qb] as *const Tok }; });
    drop(qk);
    match want {
        Some(i) => {
            vf::reach(1);
            vf::check(!panicked, 443);
            match m.get(&qb) {
                Some(g) => { vf::check(core::ptr::eq(g, addr) && g.serial() == md.vs[i], 441); }
                None => vf::check(false, 441),
            }
        }
        None => { vf::reach(2); vf::check(panicked, 442); }
    }
    let nv = vf::any_u8();
    let fresh = Tok::new(nv);
    let fs = fresh.serial();
    let mut slot = Some(fresh);
    let panicked2 = vf::catch(|| { let r = &mut m[&qb]; *r = slot.take().unwrap(); });
    match want {
        Some(i) => {
            vf::check(!panicked2, 443);
            md.vals[i] = nv; md.vs[i] = fs;
            match m.get(&qb) { Some(g) => vf::check(g.serial() == fs, 444), None => vf::check(false, 444) }
        }
        None => { vf::check(panicked2, 442); }
    }
    drop(slot);
    observe(&m, &md);
    well_formed(&m);
    finish(m);
}

/// remove (by key or by borrowed form, solver's choice): ids 451 return, 452 returned object is the stored value
pub fn c01_remove<const N: usize>() {
    tok::reset();
    let (mut m, mut md) = any_map::<N>();
    let k = vf::any_u8();
    let by_borrow = vf::any_bool();
    let r = if by_borrow { m.remove(&BKey::free(k)) } else { let kt = Tok::new(k); m.remove(&kt) };
    let e = md.remove(k);
    match (&r, e) {
        (Some(o), Some((eks, ev, evs))) => {
            vf::reach(1);
            vf::check(o.key() == ev, 451);
            vf::check(o.serial() == evs && tok::live(evs), 452);
            vf::check(tok::dead(eks), 453); // the stored key is destroyed by remove
        }
        (None, None) => { vf::reach(2); }
        _ => vf::check(false, 451),
    }
    observe(&m, &md);
    well_formed(&m);
    drop(r);
    finish(m);
}

/// remove_entry: ids 461 return, 462 returned key and value are the stored objects
pub fn c01_remove_entry<const N: usize>() {
    tok::reset();
    let (mut m, mut md) = any_map::<N>();
    let k = vf::any_u8();
    let by_borrow = vf::any_bool();
    let r = if by_borrow { m.remove_entry(&BKey::free(k)) } else { let kt = Tok::new(k); m.remove_entry(&kt) };
    let e = md.remove(k);
    match (&r, e) {
        (Some((ok, ov)), Some((eks, ev, evs))) => {
            vf::reach(1);
            vf::check(ok.key() == k && ov.key() == ev, 461);
            vf::check(ok.serial() == eks && ov.serial() == evs && tok::live(eks) && tok::live(evs), 462);
        }
        (None, None) => { vf::reach(2); }
        _ => vf::check(false, 461),
    }
    observe(&m, &md);
    well_formed(&m);
    drop(r);
    finish(m);
}

/// retain with a symbolic predicate (8-bit mask over key classes); kept values are overwritten with a
/// constant tag (idempotent, so the result does not depend on how often the predicate runs)
/// ids 471 predicate saw only live stored pairs
pub fn c01_retain<const N: usize>() {
    tok::reset();
    let (mut m, mut md) = any_map::<N>();
    let mask = vf::any_u8();
    let touch = vf::any_bool();
    let mut calls = 0usize;
    m.retain(|k, v| {
        vf::check(tok::live(k.serial()) && tok::live(v.serial()), 471);
        calls += 1;
        let kp = keep(mask, k.key());
        if kp && touch { v.set_tag(0x77); }
        kp
    });
    vf::check(calls >= md.n, 472);
    let before = md.n;
    md.retain(mask);
    if md.n < before { vf::reach(1); }
    if md.n == before { vf::reach(2); }
    if touch {
        for (_, v) in m.iter() { vf::check(v.tag() == 0x77, 473); }
    }
    observe(&m, &md);
    well_formed(&m);
    finish(m);
}

/// clear: ids 481 every stored object destroyed
pub fn c01_clear<const N: usize>() {
    tok::reset();
    let (mut m, mut md) = any_map::<N>();
    let before = tok::dropped();
    m.clear();
    vf::check(tok::dropped() == before + 2 * md.n, 481);
    md.clear();
    vf::reach(1);
    observe(&m, &md);
    well_formed(&m);
    // the cleared map is reusable up to its capacity
    let mut i = 0;
    while i < N {
        let (kt, vt) = (Tok::new(i as u8), Tok::new(7));
        md.insert(i as u8, 7, kt.serial(), vt.serial());
        vf::check(m.insert(kt, vt).is_none(), 482);
        i += 1;
    }
    observe(&m, &md);
    finish(m);
}

/// drain consumed completely: yields exactly the contents; map empty afterwards
/// ids 491 multiset of drained pairs == pre-state, 492 count
pub fn c01_drain_all<const N: usize>() {
    tok::reset();
    let (mut m, mut md) = any_map::<N>();
    let q = vf::any_u8();
    let want = md.find(q);
    let mut cnt = 0usize;
    let mut total = 0usize;
    {
        let d = m.drain();
        for (k, v) in d {
            vf::check(tok::live(k.serial()) && tok::live(v.serial()), 904);
            total += 1;
            if k.key() == q {
                cnt += 1;
                if let Some(i) = want { vf::check(k.serial() == md.ks[i] && v.serial() == md.vs[i] && v.key() == md.vals[i], 491); }
            }
        }
    }
    vf::check(total == md.n, 492);
    vf::check(cnt == want.is_some() as usize, 491);
    md.clear();
    vf::reach(1);
    observe(&m, &md);
    well_formed(&m);
    finish(m);
}

/// one solver-chosen operation with solver-chosen arguments, compared with the model
fn step<const N: usize>(m: &mut micromap::Map<Tok, Tok, N>, md: &mut Model<N>) {
    let (op, k, v) = (vf::any_u8(), vf::any_u8(), vf::any_u8());
    vf::assume(op < 7);
    match op {
        0 => {
            vf::assume(md.n < N || md.has(k));
            let (kt, vt) = (Tok::tagged(k, 1), Tok::new(v));
            let e = md.insert(k, v, kt.serial(), vt.serial());
            let r = m.insert(kt, vt);
            vf::check(r.as_ref().map(|t| t.serial()) == e.map(|x| x.1), 401);
        }
        1 => {
            let (kt, vt) = (Tok::tagged(k, 1), Tok::new(v));
            let rejected = md.n == N && !md.has(k);
            let (ks, vs) = (kt.serial(), vt.serial());
            let r = m.checked_insert(kt, vt);
            if rejected { vf::check(r.is_none(), 421); } else {
                let e = md.insert(k, v, ks, vs);
                vf::check(match r { Some(o) => o.map(|t| t.serial()) == e.map(|x| x.1), None => false }, 422);
            }
        }
        2 => {
            vf::assume(md.n < N || md.has(k));
            let (kt, vt) = (Tok::tagged(k, 2), Tok::new(v));
            let e = md.insert_kv(k, v, kt.serial(), vt.serial());
            let r = m.insert_key_value(kt, vt);
            vf::check(r.as_ref().map(|p| (p.0.serial(), p.1.serial())) == e.map(|x| (x.0, x.2)), 411);
        }
        3 => {
            let e = md.remove(k);
            let r = m.remove(&BKey::free(k));
            vf::check(r.as_ref().map(|t| t.serial()) == e.map(|x| x.2), 451);
        }
        4 => { m.retain(|kk, _| keep(k, kk.key())); md.retain(k); }
        5 => { m.clear(); md.clear(); }
        _ => { let mut d = m.drain(); if v & 1 == 1 { drop(d.next()); } drop(d); md.clear(); }
    }
    observe(m, md);
}

/// K-step histories from an empty map (does not rely on the pre-state builder): the solver picks K operations and
/// their arguments; the model is compared after every step
pub fn c01_hist<const N: usize, const K: usize>() {
    tok::reset();
    let mut m: micromap::Map<Tok, Tok, N> = empty_map();
    let mut md = Model::<N>::new();
    let mut i = 0;
    while i < K { step(&mut m, &mut md); i += 1; }
    vf::reach(1);
    well_formed(&m);
    finish(m);
}

/// Wider capacities on plain `Map<u8,u8,N>` / `Set<u8,N>` (no ledger: cheap): one solver-chosen operation from an arbitrary
/// reachable state against the model.  Catches capacity- or length-dependent special cases beyond the token harnesses' N <= 5.
pub fn c01u_ops<const N: usize>() {
    let (mut m, mut md) = any_u8_map::<N>();
    let (op, k, v) = (vf::any_u8(), vf::any_u8(), vf::any_u8());
    vf::assume(op < 9);
    match op {
        0 => { vf::assume(md.n < N || md.has(k)); vf::reach(1); let e = md.insert(k, v, 0, 0); vf::check(m.insert(k, v) == e.map(|x| x.0), 401); }
        1 => { let rejected = md.n == N && !md.has(k); let r = m.checked_insert(k, v); if rejected { vf::check(r.is_none(), 421); } else { let e = md.insert(k, v, 0, 0); vf::check(r == Some(e.map(|x| x.0)), 422); } }
        2 => { vf::assume(md.n < N || md.has(k)); let e = md.insert_kv(k, v, 0, 0); vf::check(m.insert_key_value(k, v) == e.map(|x| (k, x.1)), 411); }
        3 => { vf::reach(2); let e = md.remove(k); vf::check(m.remove(&k) == e.map(|x| x.1), 451); }
        4 => { let e = md.remove(k); vf::check(m.remove_entry(&k) == e.map(|x| (k, x.1)), 461); }
        5 => { m.retain(|kk, vv| { *vv = vv.wrapping_add(0); keep(k, *kk) }); md.retain(k); }
        6 => { vf::check(m.get(&k).copied() == md.get(k) && m.contains_key(&k) == md.has(k) && m.get_key_value(&k).map(|p| (*p.0, *p.1)) == md.get(k).map(|x| (k, x)), 431);
               if let Some(r) = m.get_mut(&k) { *r = v; let i = md.find(k).unwrap(); md.vals[i] = v; } }
        7 => { vf::assume(md.n < N || md.has(k)); let had = md.has(k); let r = *m.entry(k).or_insert(v); if !had { md.insert(k, v, 0, 0); } vf::check(Some(r) == md.get(k), 1102); }
        _ => { let c = m.clone(); vf::check(c == m, 1502); let mut t = 0; for (a, b) in c.iter() { t += 1; vf::check(md.get(*a) == Some(*b), 1501); } vf::check(t == md.n, 1501); }
    }
    same_u8_map(&m, &md);
    vf::check(m.len() <= m.capacity() && m.capacity() == N && m.is_empty() == (md.n == 0), 206);
}

fn same_bytes3(buf: &[u8; 3], a: (usize, usize), b: (usize, usize)) -> bool {
    if a.1 - a.0 != b.1 - b.0 { return false; }
    let mut i = 0;
    while i < 3 { if i < a.1 - a.0 && buf[a.0 + i] != buf[b.0 + i] { return false; } i += 1; }
    true
}

/// Lookups through an UNSIZED borrowed form: `Map<&[u8], u8, N>` whose keys are solver-chosen sub-slices `&buf[s..e]` of one
/// solver-chosen buffer, looked up by another solver-chosen sub-slice (`K = &[u8]: Borrow<[u8]>`).  Two slices may start at the
/// same address with different lengths, or hold equal bytes at different addresses: every answer is decided by content.
pub fn c01_lookup_unsized<const N: usize>() {
    let mut buf = [0u8; 3];
    let mut i = 0;
    while i < 3 { buf[i] = vf::any_u8(); i += 1; }
    let mut m: micromap::Map<&[u8], u8, N> = empty_map();
    let mut ke = [(0usize, 0usize); N];
    let mut vals = [0u8; N];
    let mut n = 0usize;
    let mut i = 0;
    while i < N {
        let (s, e, v, take) = (vf::any_usize(), vf::any_usize(), vf::any_u8(), vf::any_bool());
        if take {
            vf::assume(s <= e && e <= 3);
            let mut j = 0;
            while j < N { if j < n { vf::assume(!same_bytes3(&buf, ke[j], (s, e))); } j += 1; }
            ke[n] = (s, e); vals[n] = v; n += 1;
            vf::check(m.insert(&buf[s..e], v).is_none(), 100);
        }
        i += 1;
    }
    let (qs, qe) = (vf::any_usize(), vf::any_usize());
    vf::assume(qs <= qe && qe <= 3);
    let q: &[u8] = &buf[qs..qe];
    let mut at = usize::MAX;
    let mut j = 0;
    while j < N { if j < n && same_bytes3(&buf, ke[j], (qs, qe)) { at = j; } j += 1; }
    let want = if at != usize::MAX { Some(vals[at]) } else { None };
    if want.is_some() { vf::reach(1); } else { vf::reach(2); }
    vf::check(m.get(q).copied() == want, 431);
    vf::check(m.contains_key(q) == want.is_some(), 434);
    // get_key_value exposes the STORED key object (address and length), not the probe
    match m.get_key_value(q) {
        Some((k, v)) => { vf::check(want == Some(*v) && at != usize::MAX && k.as_ptr() as usize == buf.as_ptr() as usize + ke[at % N.max(1)].0 && k.len() == ke[at % N.max(1)].1 - ke[at % N.max(1)].0, 433); }
        None => vf::check(want.is_none(), 433),
    }
    let nv = vf::any_u8();
    let op = vf::any_u8();
    vf::assume(op < 4);
    match op {
        0 => { if let Some(r) = m.get_mut(q) { *r = nv; } vf::check(m.get(q).copied() == want.map(|_| nv), 436); vf::check(m.len() == n, 201); }
        1 => { vf::check(m.remove(q) == want, 451); vf::check(m.get(q).is_none() && m.len() == n - want.is_some() as usize, 201); }
        2 => { let r = m.remove_entry(q); vf::check(r.map(|p| p.1) == want, 461); vf::check(!m.contains_key(q) && m.len() == n - want.is_some() as usize, 201); }
        _ => { let panicked = { let mm = &m; vf::catch(move || { let _ = mm[q]; }) }; vf::check(panicked == want.is_none(), 442); }
    }
    // every other stored key still looks up to its value
    let p = vf::any_usize();
    if N > 0 && p < n && p != at { vf::check(m.get(&buf[ke[p].0..ke[p].1]).copied() == Some(vals[p]), 204); }
}

/// Capacities far beyond the symbolic-state harnesses (N = 18 .. 72): word-size, block-size and length-dependent special
/// cases (a 64-bit mask, a scan in blocks of 8, a `len >= 16` fast path).  The pre-state is *concrete* (F pairs with fixed,
/// pairwise different keys, so the construction constant-folds in the symbolic execution); then ONE solver-chosen operation with
/// solver-chosen arguments runs against the model (a second symbolic step makes the state symbolic and costs as much as the
/// symbolic-state harnesses, which stop at N = 12).  Every slot position is covered because the key is symbolic; fill levels
/// are the const parameter F (one obligation each).
pub fn c01w_ops<const N: usize, const F: usize>() {
    // `Map::new()`, not `empty_map()`: a solver-chosen `len` (even one assumed to be 0) would make the whole construction symbolic
    let mut m: micromap::Map<u8, u8, N> = micromap::Map::new();
    let mut md = Model::<N>::new();
    let mut i = 0;
    while i < F { let k = wide_key(i); md.insert(k, i as u8, 0, 0); vf::check(m.insert(k, i as u8).is_none(), 100); i += 1; }
    // a concrete pre-shuffle: the pair in slot F/3 is removed (the last pair moves into its slot) and inserted again (at the end)
    if F >= 3 { let k = wide_key(F / 3); let e = md.remove(k); vf::check(m.remove(&k) == e.map(|x| x.1), 100); md.insert(k, 7, 0, 0); vf::check(m.insert(k, 7).is_none(), 100); }
    let mut step = 0;
    while step < 1 {
        let (op, k, v) = (vf::any_u8(), vf::any_u8(), vf::any_u8());
        vf::assume(op < 11);
        match op {
            0 => { vf::assume(md.n < N || md.has(k)); vf::reach(1); let e = md.insert(k, v, 0, 0); vf::check(m.insert(k, v) == e.map(|x| x.0), 401); }
            1 => { let rejected = md.n == N && !md.has(k); let r = m.checked_insert(k, v); if rejected { vf::check(r.is_none(), 421); } else { let e = md.insert(k, v, 0, 0); vf::check(r == Some(e.map(|x| x.0)), 422); } }
            2 => { vf::assume(md.n < N || md.has(k)); let e = md.insert_kv(k, v, 0, 0); vf::check(m.insert_key_value(k, v) == e.map(|x| (k, x.1)), 411); }
            3 => { vf::reach(2); let e = md.remove(k); vf::check(m.remove(&k) == e.map(|x| x.1), 451); }
            4 => { let e = md.remove(k); vf::check(m.remove_entry(&k) == e.map(|x| (k, x.1)), 461); }
            5 => { m.retain(|kk, vv| { *vv = vv.wrapping_add(0); keep(k, *kk) }); md.retain(k); }
            6 => { vf::check(m.get(&k).copied() == md.get(k) && m.contains_key(&k) == md.has(k) && m.get_key_value(&k).map(|p| (*p.0, *p.1)) == md.get(k).map(|x| (k, x)), 431);
                   if let Some(r) = m.get_mut(&k) { *r = v; let i = md.find(k).unwrap(); md.vals[i] = v; } }
            7 => { vf::assume(md.n < N || md.has(k)); let had = md.has(k); let r = *m.entry(k).or_insert(v); if !had { md.insert(k, v, 0, 0); } vf::check(Some(r) == md.get(k), 1102); }
            8 => { if md.has(k) { vf::check(m[&k] == md.get(k).unwrap(), 441); m[&k] = v; let i = md.find(k).unwrap(); md.vals[i] = v; vf::check(m.get(&k) == Some(&v), 444); } }
            9 => { vf::assume(md.n < N || md.has(k)); let e = md.insert(k, v, 0, 0); vf::check(unsafe { m.insert_unchecked(k, v) } == e.map(|x| x.0), 1801); }
            _ => { let c = m.clone(); vf::check(c == m && m == c, 1502); vf::check(c.len() == md.n && c.get(&k).copied() == md.get(k), 1501); }
        }
        step += 1;
    }
    vf::reach(3);
    same_u8_map(&m, &md);
    // every stored pair, by iteration: exactly the model's pairs.  Quadratic, and implied by the symbolic probe of `same_u8_map`
    // (lookup, multiplicity and yielded value of EVERY key): only at the small wide capacity
    if N <= 20 {
        let mut t = 0usize;
        for (a, b) in m.iter() { t += 1; vf::check(md.get(*a) == Some(*b), 207); }
        vf::check(t == md.n, 202);
    }
    vf::check(m.len() <= m.capacity() && m.capacity() == N && m.is_empty() == (md.n == 0), 206);
}

/// zero-sized key and value (`Map<(), (), N>`): every slot has the same address and nothing is ever copied; the
/// map holds one entry at most.  Three solver-chosen operations against a one-bit model.
pub fn c01_zst<const N: usize>() {
    let mut m: micromap::Map<(), (), N> = empty_map();
    let mut has = false;
    let mut step = 0;
    while step < 3 {
        let (op, b) = (vf::any_u8(), vf::any_bool());
        vf::assume(op < 11);
        match op {
            0 => { vf::reach(1); let r = m.insert((), ()); vf::check(r.is_some() == has, 401); has = true; }
            1 => { let r = m.checked_insert((), ()); vf::check(r == Some(if has { Some(()) } else { None }), 422); has = true; }
            2 => { let r = m.insert_key_value((), ()); vf::check(r.is_some() == has, 411); has = true; }
            3 => { vf::reach(2); vf::check(m.remove(&()).is_some() == has, 451); has = false; }
            4 => { vf::check(m.remove_entry(&()).is_some() == has, 461); has = false; }
            5 => { m.retain(|_, _| b); has = has && b; }
            6 => { vf::check(m.get(&()).is_some() == has && m.contains_key(&()) == has && m.get_key_value(&()).is_some() == has && m.get_mut(&()).is_some() == has, 431); }
            7 => { let _ = m.entry(()).or_insert(()); has = true; }
            8 => { let c = m.clone(); vf::check(c == m && c.len() == m.len() && c.contains_key(&()) == has, 1502); }
            9 => { m.clear(); has = false; }
            _ => { let [r] = m.get_disjoint_mut([&()]); vf::check(r.is_some() == has, 1301); }
        }
        let n = has as usize;
        vf::check(m.len() == n && m.is_empty() == !has && m.capacity() == N, 201);
        let mut t = 0usize;
        for _ in m.iter() { t += 1; }
        vf::check(t == n, 202);
        vf::check(m.contains_key(&()) == has, 204);
        step += 1;
    }
}

/// C06: every element reference handed out points inside the bytes of the container value itself
pub fn c06_refs<const N: usize>() {
    tok::reset();
    let (mut m, md) = any_map::<N>();
    let base = &m as *const micromap::Map<Tok, Tok, N>;
    let k = vf::any_u8();
    for (a, b) in m.iter() { vf::check(vf::ptr_within(a as *const Tok, base) && vf::ptr_within(b as *const Tok, base), 501); }
    for a in m.keys() { vf::check(vf::ptr_within(a as *const Tok, base), 501); }
    for b in m.values() { vf::check(vf::ptr_within(b as *const Tok, base), 501); }
    for (a, b) in m.iter_mut() { vf::check(vf::ptr_within(a as *const Tok, base) && vf::ptr_within(b as *const Tok, base), 501); }
    for b in m.values_mut() { vf::check(vf::ptr_within(b as *const Tok, base), 501); }
    if md.n < N || md.has(k) {
        vf::reach(1);
        let r = m.entry(Tok::new(k)).or_insert(Tok::new(1));
        vf::check(vf::ptr_within(r as *const Tok, base), 501);
        match m.entry(Tok::new(k)) {
            micromap::Entry::Occupied(mut o) => {
                vf::check(vf::ptr_within(o.key() as *const Tok, base) && vf::ptr_within(o.get() as *const Tok, base), 501);
                vf::check(vf::ptr_within(o.get_mut() as *const Tok, base), 501);
                vf::check(vf::ptr_within(o.into_mut() as *const Tok, base), 501);
            }
            micromap::Entry::Vacant(_) => vf::check(false, 1101),
        }
        vf::check(vf::ptr_within(&m[&BKey::free(k)] as *const Tok, base), 501);
    } else { vf::reach(2); }
    let (q1, q2) = (BKey::free(k), BKey::free(k.wrapping_add(1)));
    for r in m.get_disjoint_mut([&q1, &q2]) { if let Some(r) = r { vf::check(vf::ptr_within(r as *const Tok, base), 501); } }
    finish(m);
}

pub fn c06_refs_set<const N: usize>() {
    tok::reset();
    let k = vf::any_u8();
    // Set: get / iter / set-algebra items
    let (s, sd) = any_set::<N>();
    let sb = &s as *const micromap::Set<Tok, N>;
    if let Some(r) = s.get(&BKey::free(k)) { vf::check(vf::ptr_within(r as *const Tok, sb) && sd.has(k), 501); }
    for r in s.iter() { vf::check(vf::ptr_within(r as *const Tok, sb), 501); }
    if sd.n > 0 { vf::reach(1); } else { vf::reach(2); }
    drop(s);
    vf::check(tok::balanced(), 302);
}

harnesses! {
    c01_zst: [1] [2];
    c06_refs: [1] [2] [3];
    c06_refs_set: [1] [2] [3];
    c01_insert: [0] [1] [2] [3];
    c01_insert_kv: [0] [1] [2] [3];
    c01_checked_insert: [0] [1] [2] [3];
    c01_lookup: [0] [1] [2] [3];
    c01_index: [0] [1] [2] [3];
    c01_remove: [0] [1] [2] [3];
    c01_remove_entry: [0] [1] [2] [3];
    c01_retain: [0] [1] [2] [3];
    c01_clear: [0] [1] [2] [3];
    c01_drain_all: [0] [1] [2] [3];
    c01_hist: [2, 2];
    c01u_ops: [4] [6] [8];
    c01w_ops: [18, 17] [18, 16];
    c01_lookup_unsized: [1] [2];
    @deep
    c01u_ops: [10] [12];
    c01_hist: [2, 3] [3, 3] [3, 4];
    c06_refs: [4];
    c06_refs_set: [4];
    c01_insert: [4] [5];
    c01_insert_kv: [4] [5];
    c01_checked_insert: [4] [5];
    c01_lookup: [4] [5];
    c01_index: [4] [5];
    c01_remove: [4] [5];
    c01_remove_entry: [4] [5];
    c01_retain: [4] [5];
    c01_clear: [4] [5];
    c01_drain_all: [4] [5];
}
