//! Harness crate for the solver-based checks of micromap (see /verif/DESIGN.md).
//! Every `h_*` symbol is one proof obligation: symbolic inputs come from `vf::any_*`, the property
//! is a set of `vf::check(cond, id)` assertions, `vf::reach(id)` are vacuity witnesses.
#![cfg_attr(feature = "cbmc", no_std)]
#![allow(clippy::all, dead_code, unused_macros, static_mut_refs)]

pub mod vf;
pub mod tok;
pub mod model;

/// `harnesses! { fname: [3] [4]; gname: [3, 2]; }` instantiates the generic harness functions per
/// capacity tuple, exports each as `h_<fname>_<a>[_<b>[_<c>]]` (engine L entry / replay name) and
/// collects them in `LIST` for the replay binary.
macro_rules! harnesses {
    ( $( $f:ident : $( [ $($n:literal),+ ] )* ; )* @deep $( $g:ident : $( [ $($k:literal),+ ] )* ; )* ) => {
        $( $(
            const _: () = {
                #[export_name = concat!("h_", stringify!($f) $(, "_", stringify!($n))+ )]
                pub extern "C-unwind" fn e() { $f::<$($n),+>() }
            };
        )* )*
        $( $(
            #[cfg(feature = "deep")]
            const _: () = {
                #[export_name = concat!("h_", stringify!($g) $(, "_", stringify!($k))+ )]
                pub extern "C-unwind" fn e() { $g::<$($k),+>() }
            };
        )* )*
        pub static LIST: &[(&str, fn())] = &[
            $( $( (concat!(stringify!($f) $(, "_", stringify!($n))+ ), $f::<$($n),+> as fn()), )* )*
            $( $( #[cfg(feature = "deep")] (concat!(stringify!($g) $(, "_", stringify!($k))+ ), $g::<$($k),+> as fn()), )* )*
        ];
        #[cfg(kani)]
        mod kproofs {
            $( $(
                const _: () = {
                    #[kani::proof]
                    #[kani::unwind(8)]
                    #[export_name = concat!("k_", stringify!($f) $(, "_", stringify!($n))+ )]
                    fn k() { super::$f::<$($n),+>() }
                };
            )* )*
        }
    };
}

#[cfg(feature = "g_map")]
pub mod g_map;

/// all harnesses compiled into this build (name -> function), for the replay binary
pub fn registry(mut f: impl FnMut(&'static str, fn())) {
    #[cfg(feature = "g_map")]
    for (n, h) in g_map::LIST { f(n, *h) }
    let _ = &mut f;
}
