//! Harness crate for the solver-based checks of micromap (see /verif/DESIGN.md).
//! Every `h_*` symbol is one proof obligation: symbolic inputs come from `vf::any_*`, the property
//! is a set of `vf::check(cond, id)` assertions, `vf::reach(id)` are vacuity witnesses.
#![cfg_attr(all(feature = "cbmc", not(feature = "lto_std")), no_std)]
#![allow(clippy::all, dead_code, unused_macros, static_mut_refs, dropping_copy_types, dropping_references)]

pub mod vf;
pub mod tok;
pub mod model;
#[cfg(kani)]
mod kproofs;

/// `harnesses! { fname: [3] [4]; gname: [3, 2]; }` instantiates the generic harness functions per
/// capacity tuple, exports each as `h_<fname>_<a>[_<b>[_<c>]]` (engine L entry / replay name) and
/// collects them in `LIST` for the replay binary.
macro_rules! harnesses {
    ( $( $f:ident : $( [ $($n:literal),+ ] )* ; )* @deep $( $g:ident : $( [ $($k:literal),+ ] )* ; )* ) => {
        $( $(
            const _: () = {
                #[export_name = concat!("h_", stringify!($f) $(, "_", stringify!($n))+ )]
                pub extern "C-unwind" fn e() { $f::<$($n),+>() }
            };
        )* )*
        $( $(
            #[cfg(feature = "deep")]
            const _: () = {
                #[export_name = concat!("h_", stringify!($g) $(, "_", stringify!($k))+ )]
                pub extern "C-unwind" fn e() { $g::<$($k),+>() }
            };
        )* )*
        pub static LIST: &[(&str, fn())] = &[
            $( $( (concat!(stringify!($f) $(, "_", stringify!($n))+ ), $f::<$($n),+> as fn()), )* )*
            $( $( #[cfg(feature = "deep")] (concat!(stringify!($g) $(, "_", stringify!($k))+ ), $g::<$($k),+> as fn()), )* )*
        ];
    };
}

#[cfg(feature = "g_map")]
pub mod g_map;
#[cfg(feature = "g_iter")]
pub mod g_iter;
#[cfg(feature = "g_set")]
pub mod g_set;
#[cfg(feature = "g_alg")]
pub mod g_alg;
#[cfg(feature = "g_full")]
pub mod g_full;
#[cfg(feature = "g_panic")]
pub mod g_panic;
#[cfg(feature = "g_entry")]
pub mod g_entry;
#[cfg(feature = "g_misc")]
pub mod g_misc;
#[cfg(feature = "g_liar")]
pub mod g_liar;
#[cfg(feature = "g_fmt")]
pub mod g_fmt;
#[cfg(feature = "g_serde")]
pub mod g_serde;

/// all harnesses compiled into this build (name -> function), for the replay binary
pub fn registry(mut f: impl FnMut(&'static str, fn())) {
    #[cfg(feature = "g_map")]
    for (n, h) in g_map::LIST { f(n, *h) }
    #[cfg(feature = "g_iter")]
    for (n, h) in g_iter::LIST { f(n, *h) }
    #[cfg(feature = "g_set")]
    for (n, h) in g_set::LIST { f(n, *h) }
    #[cfg(feature = "g_alg")]
    for (n, h) in g_alg::LIST { f(n, *h) }
    #[cfg(feature = "g_full")]
    for (n, h) in g_full::LIST { f(n, *h) }
    #[cfg(feature = "g_panic")]
    for (n, h) in g_panic::LIST { f(n, *h) }
    #[cfg(feature = "g_entry")]
    for (n, h) in g_entry::LIST { f(n, *h) }
    #[cfg(feature = "g_misc")]
    for (n, h) in g_misc::LIST { f(n, *h) }
    #[cfg(feature = "g_liar")]
    for (n, h) in g_liar::LIST { f(n, *h) }
    #[cfg(feature = "g_fmt")]
    for (n, h) in g_fmt::LIST { f(n, *h) }
    #[cfg(feature = "g_serde")]
    for (n, h) in g_serde::LIST { f(n, *h) }
    let _ = &mut f;
}
