//! Group `g_panic`: exception safety (C04) and the panicking half of the standing invariant (C05).
//! Every user callback (`eq`, `clone`, `drop`, `default`, closures, source-iterator `next`) passes through
//! `tok::fault_point()`; the harness arms it with a symbolic index, so ONE callback -- any of them, the
//! solver chooses -- panics during the operation.  After `vf::catch`: every surviving container is
//! well-formed, usable and droppable, and no ledger assertion (9xx) fails anywhere, including inside the
//! compiler-generated cleanup.  Leaks are tolerated (301: dropped <= created).
//! ids 731 survivor not usable, 732 operation result inconsistent after an uncaught-free run
use crate::model::*;
use crate::tok::{self, BKey, Tok};
use crate::vf;
use micromap::{Entry, Map, Set};

/// arm the injector with a symbolic position; returns it
fn arm() -> usize { let fa = vf::any_usize(); tok::arm(fa); fa }

fn survivor<const N: usize>(m: &mut Map<Tok, Tok, N>) {
    tok::disarm();
    well_formed(m);
    let q = vf::any_u8();
    let r = m.checked_insert(Tok::new(q), Tok::new(1));
    drop(r);
    vf::check(m.len() <= N, 731);
    let hit = m.get(&BKey::free(q)).is_some();
    vf::check(hit || m.len() == N, 731);
    let r = m.remove(&BKey::free(q));
    vf::check(r.is_some() == hit, 731);
    drop(r);
    well_formed(m);
}
fn survivor_set<const N: usize>(s: &mut Set<Tok, N>) {
    tok::disarm();
    vf::check(s.len() <= N, 214);
    let mut total = 0usize;
    let q = vf::any_u8();
    let mut cnt = 0usize;
    for k in s.iter() { vf::check(tok::live(k.serial()), 904); total += 1; if k.key() == q { cnt += 1; } }
    vf::check(total == s.len(), 211);
    vf::check(cnt <= 1, 212);
    let had = s.contains(&BKey::free(q));
    if s.len() < N || had { let fresh = s.insert(Tok::new(q)); vf::check(fresh == !had, 731); }
    let _ = s.remove(&BKey::free(q));
    vf::check(!s.contains(&BKey::free(q)), 731);
}
fn done(panicked: bool) {
    tok::disarm();
    if panicked { vf::reach(1); } else { vf::reach(2); }
    vf::check(tok::no_excess(), 301);
    if !panicked { vf::check(tok::balanced(), 302); }
}

pub fn c04_clone<const N: usize>() {
    tok::reset();
    let (mut m, md) = any_map::<N>();
    arm();
    let mut out: Option<Map<Tok, Tok, N>> = None;
    let panicked = { let (mm, o) = (&m, &mut out); vf::catch(move || { *o = Some(mm.clone()); }) };
    tok::disarm();
    observe(&m, &md); // the source is untouched either way
    if let Some(c) = out.as_mut() { observe_copy(c, &md); survivor(c); }
    survivor(&mut m);
    drop(out);
    drop(m);
    done(panicked);
}

/// Clone::clone_from with a panicking clone / destructor: an in-place implementation must not leave the destination
/// half old, half new (duplicate keys, stale len); source untouched
pub fn c04_clone_from<const N: usize>() {
    tok::reset();
    let (src, smd) = any_map::<N>();
    let (mut dst, _dmd) = any_map::<N>();
    arm();
    let panicked = { let (d, s) = (&mut dst, &src); vf::catch(move || { d.clone_from(s); }) };
    tok::disarm();
    observe(&src, &smd);
    if !panicked { observe_copy(&dst, &smd); }
    survivor(&mut dst);
    drop(dst);
    drop(src);
    // sets
    let (ssrc, _) = any_set::<N>();
    let (mut sdst, _) = any_set::<N>();
    arm();
    let p2 = { let (d, s) = (&mut sdst, &ssrc); vf::catch(move || { d.clone_from(s); }) };
    survivor_set(&mut sdst);
    drop(sdst);
    drop(ssrc);
    done(panicked || p2);
}

pub fn c04_clear<const N: usize>() {
    tok::reset();
    let (mut m, _md) = any_map::<N>();
    arm();
    let panicked = { let mm = &mut m; vf::catch(move || { mm.clear(); }) };
    if !panicked { tok::disarm(); vf::check(m.len() == 0, 732); }
    survivor(&mut m);
    drop(m);
    done(panicked);
}

pub fn c04_retain<const N: usize>() {
    tok::reset();
    let (mut m, _md) = any_map::<N>();
    let mask = vf::any_u8();
    arm();
    let panicked = { let mm = &mut m; vf::catch(move || { mm.retain(|k, _| { tok::fault_point(); keep(mask, k.key()) }); }) };
    survivor(&mut m);
    drop(m);
    done(panicked);
}

/// insert / insert_key_value / checked_insert (solver picks); present, absent and full cases all included
pub fn c04_insert<const N: usize>() {
    tok::reset();
    let (mut m, md) = any_map::<N>();
    let (k, which) = (vf::any_u8(), vf::any_u8());
    vf::assume(which < 4 && (which == 2 || md.n < N || md.has(k))); // 3 = insert_unchecked, inside its contract
    arm();
    let panicked = {
        let mm = &mut m;
        vf::catch(move || {
            let (kt, vt) = (Tok::new(k), Tok::new(9));
            if which == 0 { drop(mm.insert(kt, vt)); } else if which == 1 { drop(mm.insert_key_value(kt, vt)); } else if which == 3 { drop(unsafe { mm.insert_unchecked(kt, vt) }); } else { drop(mm.checked_insert(kt, vt)); }
        })
    };
    if !panicked { tok::disarm(); vf::check(m.get(&BKey::free(k)).is_some() || (which == 2 && md.n == N), 732); }
    survivor(&mut m);
    drop(m);
    done(panicked);
}

pub fn c04_remove<const N: usize>() {
    tok::reset();
    let (mut m, _md) = any_map::<N>();
    let (k, entry) = (vf::any_u8(), vf::any_bool());
    arm();
    let panicked = {
        let mm = &mut m;
        vf::catch(move || { let kt = Tok::new(k); if entry { drop(mm.remove_entry(&kt)); } else { drop(mm.remove(&kt)); } })
    };
    if !panicked { tok::disarm(); vf::check(m.get(&BKey::free(k)).is_none(), 732); }
    survivor(&mut m);
    drop(m);
    done(panicked);
}

/// non-mutating lookups, Index, == : a panicking comparison leaves everything untouched
pub fn c04_lookup<const N: usize>() {
    tok::reset();
    let (mut m, md) = any_map::<N>();
    let (k, which) = (vf::any_u8(), vf::any_u8());
    vf::assume(which < 6);
    vf::assume(which != 4 || md.has(k));
    arm();
    let panicked = {
        let mm = &mut m;
        vf::catch(move || {
            let kt = Tok::new(k);
            match which {
                0 => { let _ = mm.get(&kt); }
                1 => { let _ = mm.get_mut(&kt); }
                2 => { let _ = mm.contains_key(&kt); }
                3 => { let _ = mm.get_key_value(&kt); }
                4 => { let _ = &mm[&kt]; }
                _ => { let _ = *mm == *mm; }
            }
        })
    };
    tok::disarm();
    observe(&m, &md);
    survivor(&mut m);
    drop(m);
    done(panicked);
}

/// entry API with panicking closures / Default / comparisons
pub fn c04_entry<const N: usize>() {
    tok::reset();
    let (mut m, md) = any_map::<N>();
    let (k, which) = (vf::any_u8(), vf::any_u8());
    vf::assume(which < 7);
    vf::assume(md.n < N || md.has(k));
    arm();
    let panicked = {
        let mm = &mut m;
        vf::catch(move || {
            let kt = Tok::new(k);
            match which {
                0 => { let _ = mm.entry(kt).or_insert(Tok::new(1)); }
                1 => { let _ = mm.entry(kt).or_insert_with(|| { tok::fault_point(); Tok::new(2) }); }
                2 => { let _ = mm.entry(kt).or_insert_with_key(|kk| { tok::fault_point(); Tok::new(kk.key()) }); }
                3 => { let _ = mm.entry(kt).or_default(); }
                4 => { let _ = mm.entry(kt).and_modify(|v| { tok::fault_point(); v.set_tag(5); }).or_insert(Tok::new(3)); }
                6 => { if let Entry::Occupied(o) = mm.entry(kt) { drop(o.remove()); } }
                _ => {
                    match mm.entry(kt) {
                        Entry::Occupied(mut o) => { drop(o.insert(Tok::new(4))); if o.get().tag() == 0 { drop(o.remove_entry()); } }
                        Entry::Vacant(v) => { drop(v.into_key()); }
                    }
                }
            }
        })
    };
    survivor(&mut m);
    drop(m);
    done(panicked);
}

fn distinct<const L: usize>(keys: &[u8; L], len: usize) -> usize {
    let mut d = 0;
    let mut i = 0;
    while i < L {
        if i < len { let mut fresh = true; let mut j = 0; while j < i { if keys[j] == keys[i] { fresh = false; } j += 1; } if fresh { d += 1; } }
        i += 1;
    }
    d
}

/// source iterator whose `next` is a fault point
struct PSrc<const L: usize> { keys: [u8; L], pos: usize, len: usize, slack_lo: usize, slack_hi: Option<usize> }
impl<const L: usize> Iterator for PSrc<L> {
    type Item = (Tok, Tok);
    fn next(&mut self) -> Option<(Tok, Tok)> {
        tok::fault_point();
        if self.pos < self.len && self.pos < L { let i = self.pos; self.pos += 1; Some((Tok::new(self.keys[i]), Tok::new(i as u8))) } else { None }
    }
    fn size_hint(&self) -> (usize, Option<usize>) {
        let rem = self.len - self.pos;
        (rem.saturating_sub(self.slack_lo), self.slack_hi.map(|s| rem.saturating_add(s)))
    }
}
struct KSrc<const L: usize>(PSrc<L>);
impl<const L: usize> Iterator for KSrc<L> {
    type Item = Tok;
    fn next(&mut self) -> Option<Tok> { self.0.next().map(|(k, v)| { drop(v); k }) }
    fn size_hint(&self) -> (usize, Option<usize>) { self.0.size_hint() }
}

/// collect: the partially built collection is dropped by the cleanup; overflow panics of the container itself included
pub fn c04_from_iter<const N: usize, const L: usize>() {
    tok::reset();
    let len = vf::any_usize();
    vf::assume(len <= L);
    let mut keys = [0u8; L];
    let mut i = 0;
    while i < L { keys[i] = vf::any_u8(); i += 1; }
    let as_set = vf::any_bool();
    let (slack_lo, slack_hi) = (vf::any_usize(), if vf::any_bool() { Some(vf::any_usize()) } else { None });
    // at most N distinct keys: an overflow panic of the container plus the injected one would be a double
    // panic (process abort), which is outside the claim; the overflow path alone is C03's c03_from_iter
    vf::assume(distinct(&keys, len) <= N);
    arm();
    let mut out: Option<Map<Tok, Tok, N>> = None;
    let mut outs: Option<Set<Tok, N>> = None;
    let panicked = {
        let (o, os) = (&mut out, &mut outs);
        vf::catch(move || {
            let src = PSrc::<L> { keys, pos: 0, len, slack_lo, slack_hi };
            if as_set { *os = Some(KSrc(src).collect()); } else { *o = Some(src.collect()); }
        })
    };
    if let Some(m) = out.as_mut() { survivor(m); }
    if let Some(s) = outs.as_mut() { survivor_set(s); }
    drop(out);
    drop(outs);
    done(panicked);
}

/// From<[(K,V);N]> / From<[T;N]> with a panicking comparison or destructor: the array, the half-built container and the
/// pair in flight must never own the same object twice
pub fn c04_from_array<const N: usize>() {
    tok::reset();
    let mut ks = [0u8; N];
    let mut i = 0;
    while i < N { ks[i] = vf::any_u8(); i += 1; }
    let as_set = vf::any_bool();
    let mut out: Option<Map<Tok, Tok, N>> = None;
    let mut outs: Option<Set<Tok, N>> = None;
    let panicked = if as_set {
        let arr: [Tok; N] = core::array::from_fn(|i| Tok::new(ks[i]));
        arm();
        let os = &mut outs;
        vf::catch(move || { *os = Some(Set::from(arr)); })
    } else {
        let arr: [(Tok, Tok); N] = core::array::from_fn(|i| (Tok::new(ks[i]), Tok::new(i as u8)));
        arm();
        let o = &mut out;
        vf::catch(move || { *o = Some(Map::from(arr)); })
    };
    if let Some(m) = out.as_mut() { survivor(m); }
    if let Some(s) = outs.as_mut() { survivor_set(s); }
    drop(out);
    drop(outs);
    done(panicked);
}

/// Set::extend with a panicking source / comparison / overflow: the set keeps what was inserted so far
pub fn c04_set_extend<const N: usize, const L: usize>() {
    tok::reset();
    let (mut s, _md) = any_set::<N>();
    let len = vf::any_usize();
    vf::assume(len <= L);
    let mut keys = [0u8; L];
    let mut i = 0;
    while i < L { keys[i] = vf::any_u8(); i += 1; }
    {
        let mut sim = _md;
        let mut i = 0;
        while i < L { if i < len { vf::assume(sim.n < N || sim.has(keys[i])); sim.insert(keys[i], 0, 0, 0); } i += 1; }
    }
    let (slack_lo, slack_hi) = (vf::any_usize(), if vf::any_bool() { Some(vf::any_usize()) } else { None });
    arm();
    let panicked = { let ss = &mut s; vf::catch(move || { ss.extend(KSrc(PSrc::<L> { keys, pos: 0, len, slack_lo, slack_hi })); }) };
    survivor_set(&mut s);
    drop(s);
    done(panicked);
}

/// Set mutators: insert / replace / remove / take / retain / clear
pub fn c04_set_ops<const N: usize>() {
    tok::reset();
    let (mut s, md) = any_set::<N>();
    let (k, which, mask) = (vf::any_u8(), vf::any_u8(), vf::any_u8());
    vf::assume(which < 6);
    vf::assume(which > 1 || md.n < N || md.has(k));
    arm();
    let panicked = {
        let ss = &mut s;
        vf::catch(move || {
            match which {
                0 => { let _ = ss.insert(Tok::new(k)); }
                1 => { drop(ss.replace(Tok::new(k))); }
                2 => { let _ = ss.remove(&Tok::new(k)); }
                3 => { drop(ss.take(&Tok::new(k))); }
                4 => { ss.retain(|x| { tok::fault_point(); keep(mask, x.key()) }); }
                _ => { ss.clear(); }
            }
        })
    };
    survivor_set(&mut s);
    drop(s);
    done(panicked);
}

/// `&a - &b`, clone of a set, set algebra iteration and predicates under a panicking eq / clone
pub fn c04_set_algebra<const N: usize, const M: usize>() {
    tok::reset();
    let (mut a, _am) = any_set::<N>();
    let (mut b, _bm) = any_set::<M>();
    let which = vf::any_u8();
    vf::assume(which < 6);
    arm();
    let mut out: Option<Set<Tok, N>> = None;
    let panicked = {
        let (aa, bb, o) = (&a, &b, &mut out);
        vf::catch(move || {
            match which {
                0 => { *o = Some(aa - bb); }
                1 => { *o = Some(aa.clone()); }
                2 => { let _ = aa.union(bb).count(); }
                3 => { let _ = aa.symmetric_difference(bb).count() + aa.intersection(bb).count(); }
                4 => { let _ = aa.is_subset(bb) || aa.is_disjoint(bb) || aa.is_superset(bb); }
                _ => { let _ = aa == aa; }
            }
        })
    };
    if let Some(s) = out.as_mut() { survivor_set(s); }
    survivor_set(&mut a);
    survivor_set(&mut b);
    drop(out);
    drop(a);
    drop(b);
    done(panicked);
}

/// dropping a map, a consuming iterator or a drain whose elements' Drop panics: the rest may leak, nothing dies twice
pub fn c04_drops<const N: usize>() {
    tok::reset();
    let (mut m, _md) = any_map::<N>();
    let (which, j) = (vf::any_u8(), vf::any_usize());
    vf::assume(which < 5);
    arm();
    let mut keep_map = true;
    let panicked = match which {
        0 => { keep_map = false; vf::catch(move || { drop(m_take(&mut m)); }) }
        1 => { keep_map = false; vf::catch(move || { let mut it = m_take(&mut m).into_iter(); let mut i = 0; while i < N { if i < j { drop(it.next()); } i += 1; } drop(it); }) }
        2 => { keep_map = false; vf::catch(move || { let mut it = m_take(&mut m).into_values(); let mut i = 0; while i < N { if i < j { drop(it.next()); } i += 1; } drop(it); }) }
        4 => { keep_map = false; vf::catch(move || { let mut it = m_take(&mut m).into_keys(); let mut i = 0; while i < N { if i < j { drop(it.next()); } i += 1; } vf::check(it.len() <= N, 601); drop(it); }) }
        _ => {
            let mm = &mut m;
            let p = vf::catch(move || { let mut d = mm.drain(); let mut i = 0; while i < N { if i < j { drop(d.next()); } i += 1; } drop(d); });
            tok::disarm();
            vf::check(m.len() == 0, 612);
            survivor(&mut m);
            drop(m);
            p
        }
    };
    let _ = keep_map;
    done(panicked);
}
/// the same for sets: Set::drop, SetIntoIter and SetDrain with a panicking element destructor
pub fn c04_set_drops<const N: usize>() {
    tok::reset();
    let (mut s, _md) = any_set::<N>();
    let (which, j) = (vf::any_u8(), vf::any_usize());
    vf::assume(which < 3);
    arm();
    let panicked = match which {
        0 => vf::catch(move || { drop(core::mem::replace(&mut s, Set::new())); }),
        1 => vf::catch(move || { let mut it = core::mem::replace(&mut s, Set::new()).into_iter(); let mut i = 0; while i < N { if i < j { drop(it.next()); } i += 1; } vf::check(it.len() <= N, 601); drop(it); }),
        _ => {
            let ss = &mut s;
            let p = vf::catch(move || { let mut d = ss.drain(); let mut i = 0; while i < N { if i < j { drop(d.next()); } i += 1; } drop(d); });
            tok::disarm();
            vf::check(s.len() == 0, 612);
            survivor_set(&mut s);
            drop(s);
            p
        }
    };
    done(panicked);
}

/// internal iteration (for_each / fold / all) over the consuming iterators and the drain with a panicking user closure
/// or element destructor: an override of a provided method has to be as panic-safe as stepping with `next()`
pub fn c04_internal<const N: usize, const OP: u8>() {
    tok::reset();
    let (mut m, _md) = any_map::<N>();
    arm();
    let panicked = match OP {
        0 => vf::catch(move || { m_take(&mut m).into_iter().for_each(|(k, v)| { tok::fault_point(); drop(k); drop(v); }); }),
        1 => vf::catch(move || { let n = m_take(&mut m).into_keys().fold(0usize, |a, k| { tok::fault_point(); drop(k); a + 1 }); vf::check(n <= N, 601); }),
        2 => vf::catch(move || { m_take(&mut m).into_values().for_each(|v| { tok::fault_point(); drop(v); }); }),
        3 => vf::catch(move || { let mut it = m_take(&mut m).into_iter(); let _ = it.all(|(k, _v)| { tok::fault_point(); k.key() != 7 }); drop(it); }),
        _ => {
            let mm = &mut m;
            let p = vf::catch(move || {
                if OP == 4 { mm.drain().for_each(|(k, v)| { tok::fault_point(); drop(v); drop(k); }); }
                else { let mut d = mm.drain(); let _ = d.any(|(k, _v)| { tok::fault_point(); k.key() == 7 }); drop(d); }
            });
            tok::disarm();
            vf::check(m.len() == 0, 612);
            survivor(&mut m);
            drop(m);
            p
        }
    };
    done(panicked);
}
pub fn c04_set_internal<const N: usize, const OP: u8>() {
    tok::reset();
    let (mut s, _md) = any_set::<N>();
    arm();
    let panicked = match OP {
        0 => vf::catch(move || { core::mem::replace(&mut s, Set::new()).into_iter().for_each(|k| { tok::fault_point(); drop(k); }); }),
        _ => {
            let ss = &mut s;
            let p = vf::catch(move || { let n = ss.drain().fold(0usize, |a, k| { tok::fault_point(); drop(k); a + 1 }); vf::check(n <= N, 601); });
            tok::disarm();
            vf::check(s.len() == 0, 612);
            survivor_set(&mut s);
            drop(s);
            p
        }
    };
    done(panicked);
}

/// moves the map out of a `&mut` captured by a `move` closure (the closure then owns it)
fn m_take<const N: usize>(m: &mut Map<Tok, Tok, N>) -> Map<Tok, Tok, N> { core::mem::replace(m, Map::new()) }

/// get_disjoint_mut under a panicking comparison
pub fn c04_disjoint<const N: usize>() {
    tok::reset();
    let (mut m, md) = any_map::<N>();
    let (k1, k2) = (vf::any_u8(), vf::any_u8());
    arm();
    let panicked = {
        let mm = &mut m;
        vf::catch(move || { let (a, b) = (BKey::free(k1), BKey::free(k2)); let [x, y] = mm.get_disjoint_mut([&a, &b]); if let Some(x) = x { x.set_tag(1); } if let Some(y) = y { y.set_tag(2); } })
    };
    tok::disarm();
    observe(&m, &md);
    survivor(&mut m);
    drop(m);
    done(panicked);
}

// ------------------------------------------------------------------------------------------ C05 (panics raised by the container itself)
/// overflow, missing index, overlapping keys in get_disjoint_mut, with_capacity(c != N): the container panics,
/// and afterwards the standing invariant holds and the contents are exactly the previous ones
pub fn c05_panics<const N: usize>() {
    tok::reset();
    let (mut m, md) = any_map::<N>();
    let (k, which) = (vf::any_u8(), vf::any_u8());
    vf::assume(which < 4);
    let mut expect_panic = true;
    let panicked = {
        let mm = &mut m;
        match which {
            0 => { vf::assume(md.n == N && !md.has(k)); vf::reach(3); vf::catch(move || { let _ = mm.insert(Tok::new(k), Tok::new(0)); }) }
            1 => { vf::assume(!md.has(k)); vf::reach(4); vf::catch(move || { let q = BKey::free(k); let _ = &mm[&q]; }) }
            2 => { vf::assume(md.has(k)); if N > 0 { vf::reach(5); } vf::catch(move || { let q = BKey::free(k); let _ = mm.get_disjoint_mut([&q, &q]); }) }
            _ => {
                let c = vf::any_usize();
                expect_panic = c != N;
                vf::reach(6);
                #[allow(deprecated)]
                vf::catch(move || { let x: Map<Tok, Tok, N> = Map::with_capacity(c); vf::check(x.len() == 0 && x.capacity() == N, 214); })
            }
        }
    };
    vf::check(panicked == expect_panic, 733);
    if panicked { vf::reach(1); } else { vf::reach(2); }
    observe(&m, &md);
    well_formed(&m);
    finish(m);
}

harnesses! {
    c04_clone: [1] [2] [3];
    c04_clone_from: [1] [2];
    c04_clear: [1] [2] [3];
    c04_retain: [1] [2] [3];
    c04_insert: [0] [1] [2] [3];
    c04_remove: [0] [1] [2] [3];
    c04_lookup: [1] [2] [3];
    c04_entry: [1] [2] [3];
    c04_from_iter: [0, 2] [1, 2] [2, 3] [3, 4];
    c04_from_array: [2] [3];
    c04_set_extend: [1, 2] [2, 3] [3, 3];
    c04_set_ops: [0] [1] [2] [3];
    c04_set_algebra: [1, 1] [2, 2] [3, 2];
    c04_drops: [1] [2] [3];
    c04_set_drops: [1] [2] [3];
    c04_disjoint: [1] [2] [3];
    c04_internal: [2, 0] [2, 1] [2, 2] [2, 3] [2, 4] [2, 5] [3, 0] [3, 1] [3, 2] [3, 3] [3, 4] [3, 5];
    c04_set_internal: [2, 0] [2, 1] [3, 0] [3, 1];
    c05_panics: [0] [1] [2] [3];
    @deep
    c04_internal: [4, 0] [4, 1] [4, 2] [4, 3] [4, 4] [4, 5];
    c04_set_internal: [4, 0] [4, 1];
    c04_clone: [4] [5] [6];
    c04_clone_from: [3];
    c04_clear: [4] [5] [6];
    c04_retain: [4] [5] [6];
    c04_insert: [4] [5];
    c04_remove: [4] [5];
    c04_lookup: [4] [5];
    c04_entry: [4] [5];
    c04_from_iter: [4, 5] [3, 5];
    c04_from_array: [4] [5];
    c04_set_extend: [4, 4];
    c04_set_ops: [4] [5];
    c04_set_algebra: [3, 3] [4, 2];
    c04_drops: [4] [5];
    c04_set_drops: [4];
    c04_disjoint: [4] [5];
    c05_panics: [4] [5];
}
