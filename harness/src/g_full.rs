//! Group `g_full`: a full container rejects a new key cleanly, in release exactly as in debug (C03).
//! The container sits between two canary arrays.  ids 711 did not panic, 712 not exactly one panic entry point,
//! 713 canary overwritten, 714 rejected arguments not destroyed, 715 destruction count off, 716 container not usable afterwards,
//! 717 checked_insert on a full map, 718 value replacement on a full map, 719 From<[_;N]>, 720 capacity()/len() bound
use crate::model::*;
use crate::tok::{self, BKey, Tok};
use crate::vf;
use micromap::{Entry, Map, Set};

const LO: u64 = 0xA5A5_A5A5_A5A5_A5A5;
const HI: u64 = 0x5A5A_5A5A_5A5A_5A5A;

static mut ZD_MADE: usize = 0;
static mut ZD_DROPS: usize = 0;
/// zero-sized, never equal to anything, counts constructions and destructions
pub struct Zd;
impl Zd { fn new() -> Zd { unsafe { ZD_MADE += 1; } Zd } }
impl PartialEq for Zd { #[inline(always)] fn eq(&self, _: &Zd) -> bool { false } }
impl Drop for Zd { fn drop(&mut self) { unsafe { ZD_DROPS += 1; } } }

#[repr(C)]
pub struct Guarded<T> { lo: [u64; 2], pub c: T, hi: [u64; 2] }
impl<T> Guarded<T> {
    fn intact(&self) -> bool { self.lo == [LO; 2] && self.hi == [HI; 2] }
}

fn full_guarded<const N: usize>() -> (Guarded<Map<Tok, Tok, N>>, Model<N>) {
    let mut g: Guarded<Map<Tok, Tok, N>> = unsafe { vf::garbage() };
    vf::assume(g.c.len() == 0);
    g.lo = [LO; 2];
    g.hi = [HI; 2];
    let mut md = Model::<N>::new();
    let mut i = 0;
    while i < N {
        let (k, v) = (vf::any_u8(), vf::any_u8());
        vf::assume(!md.has(k));
        let (kt, vt) = (Tok::tagged(k, 3), Tok::new(v));
        md.insert(k, v, kt.serial(), vt.serial());
        vf::check(g.c.insert(kt, vt).is_none(), 100);
        i += 1;
    }
    (g, md)
}

fn full_guarded_set<const N: usize>() -> (Guarded<Set<Tok, N>>, Model<N>) {
    let mut g: Guarded<Set<Tok, N>> = unsafe { vf::garbage() };
    vf::assume(g.c.len() == 0);
    g.lo = [LO; 2];
    g.hi = [HI; 2];
    let mut md = Model::<N>::new();
    let mut i = 0;
    while i < N {
        let k = vf::any_u8();
        vf::assume(!md.has(k));
        let kt = Tok::tagged(k, 3);
        md.insert(k, 0, kt.serial(), 0);
        vf::check(g.c.insert(kt), 100);
        i += 1;
    }
    (g, md)
}

/// what must hold after the rejected insertion (map flavour)
fn after_reject<const N: usize>(g: &mut Guarded<Map<Tok, Tok, N>>, md: &mut Model<N>, panicked: bool, panics0: u32,
                                ks: u16, vs: Option<u16>, dropped0: usize, k: u8) {
    vf::check(panicked, 711);
    if vf::COUNTS_PANICS { vf::check(vf::panics() == panics0 + 1, 712); }
    vf::check(g.intact(), 713);
    vf::check(tok::dead(ks), 714);
    if let Some(vs) = vs { vf::check(tok::dead(vs), 714); }
    vf::check(tok::dropped() == dropped0 + 1 + vs.is_some() as usize, 715);
    vf::check(g.c.capacity() == N && g.c.len() == N, 720);
    observe(&g.c, md);
    well_formed(&g.c);
    // still usable: checked_insert refuses, a value replacement works, and after a removal the new key fits
    let (a, b) = (Tok::new(k), Tok::new(1));
    vf::check(g.c.checked_insert(a, b).is_none(), 716);
    if N > 0 {
        let victim = md.keys[0];
        let r = g.c.remove(&BKey::free(victim));
        vf::check(r.is_some(), 716);
        md.remove(victim);
        drop(r);
        let (kt, vt) = (Tok::new(k), Tok::new(2));
        md.insert(k, 2, kt.serial(), vt.serial());
        vf::check(g.c.insert(kt, vt).is_none(), 716);
        observe(&g.c, md);
    }
    vf::check(g.intact(), 713);
}

macro_rules! reject_case {
    ($name:ident, $with_value:expr, |$m:ident, $kt:ident, $vt:ident| $body:block) => {
        pub fn $name<const N: usize>() {
            tok::reset();
            let (mut g, mut md) = full_guarded::<N>();
            let k = vf::any_u8();
            vf::assume(!md.has(k));
            let $kt = Tok::tagged(k, 4);
            let $vt = Tok::new(vf::any_u8());
            let (ks, vs) = ($kt.serial(), $vt.serial());
            let with_value: bool = $with_value;
            let dropped0 = tok::dropped();
            let panics0 = vf::panics();
            let panicked = {
                let $m = &mut g.c;
                vf::catch(move || $body)
            };
            if panicked { vf::reach(1); }
            after_reject(&mut g, &mut md, panicked, panics0, ks, if with_value { Some(vs) } else { None }, dropped0, k);
            drop(g);
            vf::check(tok::balanced(), 302);
        }
    };
}

reject_case!(c03_insert, true, |m, kt, vt| { let _ = m.insert(kt, vt); });
reject_case!(c03_insert_kv, true, |m, kt, vt| { let _ = m.insert_key_value(kt, vt); });
reject_case!(c03_or_insert, true, |m, kt, vt| { let _ = m.entry(kt).or_insert(vt); });
reject_case!(c03_or_insert_with, true, |m, kt, vt| { let _ = m.entry(kt).or_insert_with(move || vt); });
reject_case!(c03_or_insert_with_key, true, |m, kt, vt| { let _ = m.entry(kt).or_insert_with_key(move |_| vt); });
reject_case!(c03_vacant_insert, true, |m, kt, vt| {
    match m.entry(kt) { Entry::Vacant(e) => { let _ = e.insert(vt); } Entry::Occupied(_) => { vf::check(false, 711); } }
});

/// or_default creates its own value: only the key is a rejected argument
pub fn c03_or_default<const N: usize>() {
    tok::reset();
    let (mut g, mut md) = full_guarded::<N>();
    let k = vf::any_u8();
    vf::assume(!md.has(k));
    let kt = Tok::tagged(k, 4);
    let ks = kt.serial();
    let created0 = tok::created();
    let panics0 = vf::panics();
    let panicked = { let m = &mut g.c; vf::catch(move || { let _ = m.entry(kt).or_default(); }) };
    if panicked { vf::reach(1); }
    // the defaulted value (one new object) must be destroyed as well
    vf::check(tok::created() == created0 + 1, 715);
    let dv = created0 as u16;
    vf::check(tok::dead(dv), 714);
    let dropped_before = tok::dropped() - 2;
    after_reject(&mut g, &mut md, panicked, panics0, ks, Some(dv), dropped_before, k);
    drop(g);
    vf::check(tok::balanced(), 302);
}

/// collect / from_iter of N+1 distinct keys: panics; nothing is destroyed twice, everything pulled is destroyed
pub fn c03_from_iter<const N: usize>() {
    tok::reset();
    let mut keys = [0u8; 8];
    let mut i = 0;
    while i <= N { keys[i] = vf::any_u8(); let mut j = 0; while j < i { vf::assume(keys[j] != keys[i]); j += 1; } i += 1; }
    let panics0 = vf::panics();
    let mut pulled = 0usize;
    // the source reports a solver-chosen size_hint that honours the Iterator contract (lower <= N+1 <= upper, or no upper bound)
    let (lo, hi, has_hi) = (vf::any_usize(), vf::any_usize(), vf::any_bool());
    vf::assume(lo <= N + 1 && hi >= N + 1);
    let panicked = vf::catch(|| {
        let it = Hinted { it: (0..N + 1).map(|i| { pulled += 1; (Tok::new(keys[i]), Tok::new(i as u8)) }), lo, hi: if has_hi { Some(hi) } else { None } };
        let m: Map<Tok, Tok, N> = it.collect();
        drop(m);
    });
    if panicked { vf::reach(1); }
    vf::check(panicked, 711);
    if vf::COUNTS_PANICS { vf::check(vf::panics() == panics0 + 1, 712); }
    vf::check(pulled <= N + 1, 715); // nothing is pulled past the item that does not fit
    vf::check(tok::balanced(), 302); // the half-built map and the rejected pair were all destroyed exactly once
}

/// wraps an iterator and reports a given (contract-abiding) size_hint for the full sequence
pub struct Hinted<I> { pub it: I, pub lo: usize, pub hi: Option<usize> }
impl<I: Iterator> Iterator for Hinted<I> {
    type Item = I::Item;
    fn next(&mut self) -> Option<I::Item> { self.lo = self.lo.saturating_sub(1); self.hi = self.hi.map(|h| h.saturating_sub(1)); self.it.next() }
    fn size_hint(&self) -> (usize, Option<usize>) { (self.lo, self.hi) }
}

pub fn c03_set_insert<const N: usize>() {
    tok::reset();
    let (mut g, md) = full_guarded_set::<N>();
    let k = vf::any_u8();
    vf::assume(!md.has(k));
    let replace = vf::any_bool();
    let kt = Tok::tagged(k, 4);
    let ks = kt.serial();
    let dropped0 = tok::dropped();
    let panics0 = vf::panics();
    let panicked = { let s = &mut g.c; vf::catch(move || { if replace { let _ = s.replace(kt); } else { let _ = s.insert(kt); } }) };
    if panicked { vf::reach(1); }
    if replace { vf::reach(2); } else { vf::reach(3); }
    vf::check(panicked, 711);
    if vf::COUNTS_PANICS { vf::check(vf::panics() == panics0 + 1, 712); }
    vf::check(g.intact(), 713);
    vf::check(tok::dead(ks), 714);
    vf::check(tok::dropped() == dropped0 + 1, 715);
    vf::check(g.c.capacity() == N && g.c.len() == N, 720);
    observe_set(&g.c, &md);
    if N > 0 {
        vf::check(g.c.remove(&BKey::free(md.keys[0])), 716);
        vf::check(g.c.insert(Tok::new(k)), 716);
        vf::check(g.c.len() == N && g.c.contains(&BKey::free(k)), 716);
    }
    vf::check(g.intact(), 713);
    drop(g);
    vf::check(tok::balanced(), 302);
}

/// Set: collect / extend past the capacity
pub fn c03_set_extend<const N: usize>() {
    tok::reset();
    let (mut g, md) = full_guarded_set::<N>();
    let k = vf::any_u8();
    vf::assume(!md.has(k));
    let dup = if N > 0 { md.keys[0] } else { k };
    let panics0 = vf::panics();
    let (lo, hi, has_hi) = (vf::any_usize(), vf::any_usize(), vf::any_bool());
    vf::assume(lo <= 3 && hi >= 3);
    let panicked = { let s = &mut g.c; vf::catch(move || { s.extend(Hinted { it: [Tok::new(dup), Tok::new(k), Tok::new(k)].into_iter(), lo, hi: if has_hi { Some(hi) } else { None } }); }) };
    if panicked { vf::reach(1); }
    vf::check(panicked, 711);
    if vf::COUNTS_PANICS { vf::check(vf::panics() == panics0 + 1, 712); }
    vf::check(g.intact(), 713);
    vf::check(g.c.len() == N, 720);
    observe_set(&g.c, &md);
    drop(g);
    vf::check(tok::balanced(), 302); // including the items the array iterator still owned
}

/// checked_insert of an absent key into a full map: None, nothing changed, arguments destroyed once
pub fn c03_checked_full<const N: usize>() {
    tok::reset();
    let (mut g, md) = full_guarded::<N>();
    let k = vf::any_u8();
    vf::assume(!md.has(k));
    let (kt, vt) = (Tok::new(k), Tok::new(5));
    let (ks, vs) = (kt.serial(), vt.serial());
    let dropped0 = tok::dropped();
    let r = g.c.checked_insert(kt, vt);
    vf::check(r.is_none(), 717);
    vf::check(tok::dead(ks) && tok::dead(vs) && tok::dropped() == dropped0 + 2, 714);
    vf::check(g.intact(), 713);
    vf::check(g.c.capacity() == N && g.c.len() == N, 720);
    vf::reach(1);
    observe(&g.c, &md);
    drop(g);
    vf::check(tok::balanced(), 302);
}

/// replacing the value of a present key succeeds on a full map, through every insertion entry point
pub fn c03_replace_full<const N: usize>() {
    tok::reset();
    let (mut g, mut md) = full_guarded::<N>();
    let k = vf::any_u8();
    vf::assume(md.has(k)); // N >= 1
    let which = vf::any_u8();
    let (kt, vt) = (Tok::tagged(k, 6), Tok::new(vf::any_u8()));
    let (ks, vs, vk) = (kt.serial(), vt.serial(), vt.key());
    if which == 0 {
        vf::reach(1);
        vf::check(g.c.insert(kt, vt).is_some(), 718);
        md.insert(k, vk, ks, vs);
    } else if which == 1 {
        vf::reach(2);
        vf::check(g.c.insert_key_value(kt, vt).is_some(), 718);
        md.insert_kv(k, vk, ks, vs);
    } else if which == 2 {
        vf::reach(3);
        vf::check(match g.c.checked_insert(kt, vt) { Some(Some(_)) => true, _ => false }, 718);
        md.insert(k, vk, ks, vs);
    } else {
        vf::reach(4);
        // entry on a present key of a full map is Occupied: or_insert keeps the old value and drops the new one
        let r = g.c.entry(kt).or_insert(vt);
        let i = md.find(k).unwrap();
        vf::check(r.serial() == md.vs[i], 718);
        vf::check(tok::dead(vs) && tok::dead(ks), 714);
    }
    vf::check(g.intact(), 713);
    vf::check(g.c.len() == N, 720);
    observe(&g.c, &md);
    drop(g);
    vf::check(tok::balanced(), 302);
}

/// From<[(K,V); N]> can never overflow (at most N distinct keys), duplicates included
pub fn c03_from_array<const N: usize>() {
    tok::reset();
    let mut md = Model::<N>::new();
    let mut ks = [0u8; N];
    let mut i = 0;
    while i < N { ks[i] = vf::any_u8(); i += 1; }
    let arr: [(Tok, Tok); N] = core::array::from_fn(|i| {
        let (kt, vt) = (Tok::new(ks[i]), Tok::new(i as u8));
        md.insert(ks[i], i as u8, kt.serial(), vt.serial());
        (kt, vt)
    });
    let panicked;
    let mut out: Option<Map<Tok, Tok, N>> = None;
    { let o = &mut out; panicked = vf::catch(move || { *o = Some(Map::from(arr)); }); }
    vf::check(!panicked, 719);
    vf::reach(1);
    if let Some(m) = out.as_ref() { observe(m, &md); vf::check(m.capacity() == N, 720); }
    drop(out);
    vf::check(tok::balanced(), 302);
}

/// other element shapes on a full container: S = 0 zero-sized value `(u8, ())`, 1 large value `(u8, [u64; 3])`,
/// 2 zero-sized key `((), u8)` (at most one entry can exist).  Plain types, no ledger; every insertion entry point.
pub fn c03_shapes<const N: usize, const S: u8>() {
    macro_rules! run {
        ($kt:ty, $vt:ty, $mk:expr, $mv:expr, $kid:expr) => {{
            let mut g: Guarded<Map<$kt, $vt, N>> = unsafe { vf::garbage() };
            vf::assume(g.c.len() == 0);
            g.lo = [LO; 2];
            g.hi = [HI; 2];
            let mut ks = [0u8; 8];
            let mut i = 0;
            while i < N {
                ks[i] = vf::any_u8();
                let mut j = 0;
                while j < i { vf::assume(ks[j] != ks[i]); j += 1; }
                vf::check(g.c.insert($mk(ks[i]), $mv(ks[i])).is_none(), 100);
                i += 1;
            }
            let k = vf::any_u8();
            let mut j = 0;
            while j < N { vf::assume(ks[j] != k); j += 1; }
            let which = vf::any_u8();
            vf::assume(which < 4);
            let panics0 = vf::panics();
            let panicked = {
                let m = &mut g.c;
                vf::catch(move || match which {
                    0 => { let _ = m.insert($mk(k), $mv(k)); }
                    1 => { let _ = m.insert_key_value($mk(k), $mv(k)); }
                    2 => { let _ = m.entry($mk(k)).or_insert($mv(k)); }
                    _ => { let _: Map<$kt, $vt, N> = (0..N + 1).map(|i| ($mk(if i < N { ks[i] } else { k }), $mv(0))).collect(); }
                })
            };
            vf::check(panicked, 711);
            if panicked { vf::reach(1); }
            if vf::COUNTS_PANICS { vf::check(vf::panics() == panics0 + 1, 712); }
            vf::check(g.intact(), 713);
            vf::check(g.c.len() == N && g.c.capacity() == N, 720);
            vf::check(g.c.checked_insert($mk(k), $mv(k)).is_none(), 717);
            let mut t = 0usize;
            let p = vf::any_usize();
            for (kk, vv) in g.c.iter() { t += 1; if p < N && $kid(kk) == ks[p] { vf::check(*vv == $mv(ks[p]), 207); } }
            vf::check(t == N, 202);
            if p < N { vf::check(g.c.get(&$mk(ks[p])) == Some(&$mv(ks[p])), 204); }
            vf::check(g.c.get(&$mk(k)).is_none(), 204);
            if N > 0 { vf::check(g.c.remove(&$mk(ks[0])) == Some($mv(ks[0])), 716); vf::check(g.c.insert($mk(k), $mv(k)).is_none() && g.c.len() == N, 716); }
            vf::check(g.intact(), 713);
        }};
    }
    match S {
        0 => run!(u8, (), |k: u8| k, |_k: u8| (), |k: &u8| *k),
        1 => run!(u8, [u64; 3], |k: u8| k, |k: u8| [k as u64, 7, !(k as u64)], |k: &u8| *k),
        3 => {
            // fully zero-sized pairs `(Zd, ())`: Zd is never equal to another Zd (so a map can hold several) and counts its
            // destructions.  All slots share one address: a bound check written in terms of slot addresses sees an empty range.
            let mut g: Guarded<Map<Zd, (), N>> = unsafe { vf::garbage() };
            vf::assume(g.c.len() == 0);
            g.lo = [LO; 2];
            g.hi = [HI; 2];
            unsafe { ZD_MADE = 0; ZD_DROPS = 0; }
            let mut i = 0;
            while i < N { vf::check(g.c.insert(Zd::new(), ()).is_none(), 100); i += 1; }
            let which = vf::any_u8();
            vf::assume(which < 6);
            let panics0 = vf::panics();
            let panicked = {
                let m = &mut g.c;
                vf::catch(move || match which {
                    0 => { let _ = m.insert(Zd::new(), ()); }
                    1 => { let _ = m.insert_key_value(Zd::new(), ()); }
                    2 => { let _ = m.entry(Zd::new()).or_insert(()); }
                    3 => { let _ = m.entry(Zd::new()).or_default(); }
                    4 => { let _: Map<Zd, (), N> = (0..N + 1).map(|_| (Zd::new(), ())).collect(); }
                    _ => { let mut s: micromap::Set<Zd, N> = micromap::Set::new(); s.extend((0..N + 1).map(|_| Zd::new())); }
                })
            };
            vf::check(panicked, 711);
            if panicked { vf::reach(1); }
            if vf::COUNTS_PANICS { vf::check(vf::panics() == panics0 + 1, 712); }
            vf::check(g.intact(), 713);
            vf::check(g.c.len() == N && g.c.capacity() == N, 720);
            // everything created except the N stored keys has been destroyed exactly once (the rejected key included)
            unsafe { vf::check(ZD_DROPS + N == ZD_MADE, 714); }
            vf::check(g.c.checked_insert(Zd::new(), ()).is_none(), 717);
            unsafe { vf::check(ZD_DROPS + N == ZD_MADE, 714); }
            let mut t = 0usize;
            for _ in g.c.iter() { t += 1; }
            vf::check(t == N, 202);
            g.c.clear();
            unsafe { vf::check(ZD_DROPS == ZD_MADE, 715); }
            let mut i = 0;
            while i < N { vf::check(g.c.insert(Zd::new(), ()).is_none() && g.c.len() == i + 1, 716); i += 1; }
            vf::check(g.intact(), 713);
        }
        _ => {
            // zero-sized key: every key equals every other, so N = 1 is the only full non-trivial map and an "absent key" does not exist;
            // what must hold: a second insert replaces (never appends), capacity is respected, nothing outside is written
            let mut g: Guarded<Map<(), u8, N>> = unsafe { vf::garbage() };
            vf::assume(g.c.len() == 0);
            g.lo = [LO; 2];
            g.hi = [HI; 2];
            let (a, b) = (vf::any_u8(), vf::any_u8());
            let panicked = { let m = &mut g.c; vf::catch(move || { let _ = m.insert((), a); }) };
            vf::check(panicked == (N == 0), 711);
            if N > 0 {
                vf::reach(1);
                vf::check(g.c.insert((), b) == Some(a) && g.c.len() == 1, 718);
                vf::check(g.c.get(&()) == Some(&b) && g.c.iter().count() == 1, 204);
                vf::check(g.c.checked_insert((), a) == Some(Some(b)), 717);
            } else { vf::reach(1); vf::check(g.c.len() == 0 && g.c.checked_insert((), a).is_none(), 717); }
            vf::check(g.intact(), 713);
        }
    }
}

harnesses! {
    c03_shapes: [0, 0] [1, 0] [2, 0] [3, 0] [0, 1] [1, 1] [2, 1] [3, 1] [0, 2] [1, 2] [2, 2] [0, 3] [1, 3] [2, 3] [3, 3];
    c03_insert: [0] [1] [2] [3];
    c03_insert_kv: [0] [1] [2] [3];
    c03_or_insert: [0] [1] [2] [3];
    c03_or_insert_with: [0] [1] [2] [3];
    c03_or_insert_with_key: [0] [1] [2] [3];
    c03_vacant_insert: [0] [1] [2] [3];
    c03_or_default: [0] [1] [2] [3];
    c03_from_iter: [0] [1] [2] [3];
    c03_set_insert: [0] [1] [2] [3];
    c03_set_extend: [0] [1] [2] [3];
    c03_checked_full: [0] [1] [2] [3];
    c03_replace_full: [1] [2] [3];
    c03_from_array: [0] [1] [2] [3];
    @deep
    c03_shapes: [4, 0] [5, 0] [4, 1] [5, 1];
    c03_insert: [4] [5];
    c03_insert_kv: [4] [5];
    c03_or_insert: [4] [5];
    c03_or_insert_with: [4] [5];
    c03_or_insert_with_key: [4] [5];
    c03_vacant_insert: [4] [5];
    c03_or_default: [4] [5];
    c03_from_iter: [4] [5];
    c03_set_insert: [4] [5];
    c03_set_extend: [4] [5];
    c03_checked_full: [4] [5];
    c03_replace_full: [4] [5];
    c03_from_array: [4] [5];
}
