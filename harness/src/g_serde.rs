//! Group `g_serde`: serde round trip (C20).  A harness-side, allocation-free token-stream Serializer/Deserializer
//! records the announced length and counts the emitted entries; thorough tier adds the bincode path the crate's
//! own tests use.  ids 2001 announced length != len(), 2002 emitted entries != len(), 2003 decoded container differs,
//! 2004 (de)serialisation failed
use crate::model::*;
use crate::vf;
use micromap::{Map, Set};

pub fn c20_bincode_map<const N: usize, const M: usize>() {
    let (m, md) = any_u8_map::<N>();
    let mut buf = [0u8; 64];
    let cfg = bincode::config::standard();
    let r = bincode::serde::encode_into_slice(&m, &mut buf, cfg);
    let Ok(len) = r else { vf::check(false, 2004); return; };
    // bincode standard config: a length varint followed by len() (key, value) byte pairs (u8 values are one byte each)
    vf::check(buf[0] as usize == md.n, 2001);
    vf::check(len == 1 + 2 * md.n, 2002);
    vf::assume(md.n <= M);
    let d: Result<(Map<u8, u8, M>, usize), _> = bincode::serde::decode_from_slice(&buf[..len], cfg);
    match d {
        Ok((m2, used)) => {
            vf::reach(1);
            vf::check(used == len, 2003);
            vf::check(m2 == m && m == m2, 2003);
            let mut md2 = Model::<M>::new();
            let mut i = 0;
            while i < N { if i < md.n { md2.insert(md.keys[i], md.vals[i], 0, 0); } i += 1; }
            same_u8_map(&m2, &md2);
        }
        Err(_) => vf::check(false, 2004),
    }
    same_u8_map(&m, &md);
}

pub fn c20_bincode_set<const N: usize, const M: usize>() {
    let (s, md) = any_u8_set::<N>();
    let mut buf = [0u8; 64];
    let cfg = bincode::config::standard();
    let r = bincode::serde::encode_into_slice(&s, &mut buf, cfg);
    let Ok(len) = r else { vf::check(false, 2004); return; };
    vf::check(buf[0] as usize == md.n, 2001);
    vf::check(len == 1 + md.n, 2002);
    vf::assume(md.n <= M);
    let d: Result<(Set<u8, M>, usize), _> = bincode::serde::decode_from_slice(&buf[..len], cfg);
    match d {
        Ok((s2, used)) => {
            vf::reach(1);
            vf::check(used == len, 2003);
            vf::check(s2 == s && s == s2, 2003);
            let mut md2 = Model::<M>::new();
            let mut i = 0;
            while i < N { if i < md.n { md2.insert(md.keys[i], 0, 0, 0); } i += 1; }
            same_u8_set(&s2, &md2);
        }
        Err(_) => vf::check(false, 2004),
    }
    same_u8_set(&s, &md);
}

/// a second, independent Deserializer (serde's own `value::MapDeserializer` / `SeqDeserializer`, no bincode), used for
/// both entry points of the trait: `deserialize` and `deserialize_in_place` (which must REPLACE whatever the place held)
pub fn c20_value_de<const N: usize, const M: usize>() {
    use serde::de::value::{Error as VErr, MapDeserializer, SeqDeserializer};
    use serde::Deserialize;
    let (m, md) = any_u8_map::<N>();
    vf::assume(md.n <= M);
    let mut pairs = [(0u8, 0u8); N];
    let mut i = 0;
    for (k, v) in m.iter() { if i < N { pairs[i] = (*k, *v); } i += 1; }
    let n = md.n;
    let mut md2 = Model::<M>::new();
    let mut i = 0;
    while i < N { if i < n { md2.insert(md.keys[i], md.vals[i], 0, 0); } i += 1; }
    let in_place = vf::any_bool();
    if in_place {
        vf::reach(1);
        // the place already holds arbitrary entries
        let (mut place, _pm) = any_u8_map::<M>();
        let de = MapDeserializer::<_, VErr>::new(pairs[..n].iter().copied());
        let r = Map::<u8, u8, M>::deserialize_in_place(de, &mut place);
        vf::check(r.is_ok(), 2004);
        vf::check(place == m && m == place, 2003);
        same_u8_map(&place, &md2);
    } else {
        vf::reach(2);
        let de = MapDeserializer::<_, VErr>::new(pairs[..n].iter().copied());
        match Map::<u8, u8, M>::deserialize(de) { Ok(d) => { vf::check(d == m, 2003); same_u8_map(&d, &md2); } Err(_) => vf::check(false, 2004) }
    }
    // sets through SeqDeserializer
    let (s, sd) = any_u8_set::<N>();
    vf::assume(sd.n <= M);
    let mut items = [0u8; N];
    let mut i = 0;
    for k in s.iter() { if i < N { items[i] = *k; } i += 1; }
    let sn = sd.n;
    let mut sd2 = Model::<M>::new();
    let mut i = 0;
    while i < N { if i < sn { sd2.insert(sd.keys[i], 0, 0, 0); } i += 1; }
    if in_place {
        let (mut place, _) = any_u8_set::<M>();
        let de = SeqDeserializer::<_, VErr>::new(items[..sn].iter().copied());
        let r = Set::<u8, M>::deserialize_in_place(de, &mut place);
        vf::check(r.is_ok(), 2004);
        vf::check(place == s, 2003);
        same_u8_set(&place, &sd2);
    } else {
        let de = SeqDeserializer::<_, VErr>::new(items[..sn].iter().copied());
        match Set::<u8, M>::deserialize(de) { Ok(d) => { vf::check(d == s, 2003); same_u8_set(&d, &sd2); } Err(_) => vf::check(false, 2004) }
    }
}

harnesses! {
    c20_value_de: [1, 1] [2, 2] [2, 3] [3, 3];
    c20_bincode_map: [0, 0] [1, 1] [2, 2] [3, 3] [2, 3] [1, 3];
    c20_bincode_set: [0, 0] [1, 1] [2, 2] [3, 3] [2, 3] [1, 3];
    @deep
    c20_bincode_map: [4, 4] [3, 5];
    c20_bincode_set: [4, 4] [3, 5];
}
