//! Group `g_serde`: serde round trip (C20).  A harness-side, allocation-free token-stream Serializer/Deserializer
//! records the announced length and counts the emitted entries; thorough tier adds the bincode path the crate's
//! own tests use.  ids 2001 announced length != len(), 2002 emitted entries != len(), 2003 decoded container differs,
//! 2004 (de)serialisation failed
use crate::model::*;
use crate::vf;
use micromap::{Map, Set};

pub fn c20_bincode_map<const N: usize, const M: usize>() {
    let (m, md) = any_u8_map::<N>();
    let mut buf = [0u8; 64];
    let cfg = bincode::config::standard();
    let r = bincode::serde::encode_into_slice(&m, &mut buf, cfg);
    let Ok(len) = r else { vf::check(false, 2004); return; };
    // bincode standard config: a length varint followed by len() (key, value) byte pairs (u8 values are one byte each)
    vf::check(buf[0] as usize == md.n, 2001);
    vf::check(len == 1 + 2 * md.n, 2002);
    vf::assume(md.n <= M);
    let d: Result<(Map<u8, u8, M>, usize), _> = bincode::serde::decode_from_slice(&buf[..len], cfg);
    match d {
        Ok((m2, used)) => {
            vf::reach(1);
            vf::check(used == len, 2003);
            vf::check(m2 == m && m == m2, 2003);
            let mut md2 = Model::<M>::new();
            let mut i = 0;
            while i < N { if i < md.n { md2.insert(md.keys[i], md.vals[i], 0, 0); } i += 1; }
            same_u8_map(&m2, &md2);
        }
        Err(_) => vf::check(false, 2004),
    }
    same_u8_map(&m, &md);
}

pub fn c20_bincode_set<const N: usize, const M: usize>() {
    let (s, md) = any_u8_set::<N>();
    let mut buf = [0u8; 64];
    let cfg = bincode::config::standard();
    let r = bincode::serde::encode_into_slice(&s, &mut buf, cfg);
    let Ok(len) = r else { vf::check(false, 2004); return; };
    vf::check(buf[0] as usize == md.n, 2001);
    vf::check(len == 1 + md.n, 2002);
    vf::assume(md.n <= M);
    let d: Result<(Set<u8, M>, usize), _> = bincode::serde::decode_from_slice(&buf[..len], cfg);
    match d {
        Ok((s2, used)) => {
            vf::reach(1);
            vf::check(used == len, 2003);
            vf::check(s2 == s && s == s2, 2003);
            let mut md2 = Model::<M>::new();
            let mut i = 0;
            while i < N { if i < md.n { md2.insert(md.keys[i], 0, 0, 0); } i += 1; }
            same_u8_set(&s2, &md2);
        }
        Err(_) => vf::check(false, 2004),
    }
    same_u8_set(&s, &md);
}

/// zero-sized entry types through bincode: `Set<(), N>` and `Map<(), (), N>` hold at most one entry, which takes no bytes on the
/// wire (only the length prefix does) -- the decoded container must still hold it.  W: 0 set, 1 map.
pub fn c20_zst<const N: usize, const W: u8>() {
    let put = vf::any_bool();
    let n = put as usize;
    let mut buf = [0u8; 16];
    let cfg = bincode::config::standard();
    if W == 0 {
        let mut s: Set<(), N> = empty_set();
        if put { vf::check(s.insert(()), 100); }
        let r = bincode::serde::encode_into_slice(&s, &mut buf, cfg);
        let Ok(len) = r else { vf::check(false, 2004); return; };
        vf::check(buf[0] as usize == n, 2001);
        vf::check(len == 1, 2002);
        let d: Result<(Set<(), N>, usize), _> = bincode::serde::decode_from_slice(&buf[..len], cfg);
        match d {
            Ok((s2, used)) => { vf::reach(1); vf::check(used == len && s2.len() == n && s2.contains(&()) == put && s2 == s, 2003); }
            Err(_) => vf::check(false, 2004),
        }
        vf::check(s.len() == n, 811);
    } else {
        let mut m: Map<(), (), N> = empty_map();
        if put { vf::check(m.insert((), ()).is_none(), 100); }
        let r = bincode::serde::encode_into_slice(&m, &mut buf, cfg);
        let Ok(len) = r else { vf::check(false, 2004); return; };
        vf::check(buf[0] as usize == n, 2001);
        vf::check(len == 1, 2002);
        let d: Result<(Map<(), (), N>, usize), _> = bincode::serde::decode_from_slice(&buf[..len], cfg);
        match d {
            Ok((m2, used)) => { vf::reach(1); vf::check(used == len && m2.len() == n && m2.contains_key(&()) == put && m2 == m, 2003); }
            Err(_) => vf::check(false, 2004),
        }
        vf::check(m.len() == n, 811);
    }
}

/// a second, independent Deserializer (serde's own `value::MapDeserializer` / `SeqDeserializer`, no bincode), used for
/// both entry points of the trait: `deserialize` and `deserialize_in_place` (which must REPLACE whatever the place held)
pub fn c20_value_de<const N: usize, const M: usize>() {
    use serde::de::value::{Error as VErr, MapDeserializer, SeqDeserializer};
    use serde::Deserialize;
    let (m, md) = any_u8_map::<N>();
    vf::assume(md.n <= M);
    let mut pairs = [(0u8, 0u8); N];
    let mut i = 0;
    for (k, v) in m.iter() { if i < N { pairs[i] = (*k, *v); } i += 1; }
    let n = md.n;
    let mut md2 = Model::<M>::new();
    let mut i = 0;
    while i < N { if i < n { md2.insert(md.keys[i], md.vals[i], 0, 0); } i += 1; }
    let in_place = vf::any_bool();
    if in_place {
        vf::reach(1);
        // the place already holds arbitrary entries
        let (mut place, _pm) = any_u8_map::<M>();
        let de = MapDeserializer::<_, VErr>::new(pairs[..n].iter().copied());
        let r = Map::<u8, u8, M>::deserialize_in_place(de, &mut place);
        vf::check(r.is_ok(), 2004);
        vf::check(place == m && m == place, 2003);
        same_u8_map(&place, &md2);
    } else {
        vf::reach(2);
        let de = MapDeserializer::<_, VErr>::new(pairs[..n].iter().copied());
        match Map::<u8, u8, M>::deserialize(de) { Ok(d) => { vf::check(d == m, 2003); same_u8_map(&d, &md2); } Err(_) => vf::check(false, 2004) }
    }
    // sets through SeqDeserializer
    let (s, sd) = any_u8_set::<N>();
    vf::assume(sd.n <= M);
    let mut items = [0u8; N];
    let mut i = 0;
    for k in s.iter() { if i < N { items[i] = *k; } i += 1; }
    let sn = sd.n;
    let mut sd2 = Model::<M>::new();
    let mut i = 0;
    while i < N { if i < sn { sd2.insert(sd.keys[i], 0, 0, 0); } i += 1; }
    if in_place {
        let (mut place, _) = any_u8_set::<M>();
        let de = SeqDeserializer::<_, VErr>::new(items[..sn].iter().copied());
        let r = Set::<u8, M>::deserialize_in_place(de, &mut place);
        vf::check(r.is_ok(), 2004);
        vf::check(place == s, 2003);
        same_u8_set(&place, &sd2);
    } else {
        let de = SeqDeserializer::<_, VErr>::new(items[..sn].iter().copied());
        match Set::<u8, M>::deserialize(de) { Ok(d) => { vf::check(d == s, 2003); same_u8_set(&d, &sd2); } Err(_) => vf::check(false, 2004) }
    }
}

// ------------------------------------------------------------------------------------------ a self-describing token format
/// serde data-model tokens recorded by `Ser` and replayed by `De` (fixed array, no allocation).  Unlike bincode, this
/// format distinguishes a sequence from a map, records the announced length, and gives unit a representation.
#[derive(Clone, Copy, PartialEq, Debug)]
pub enum Tk { U8(u8), Unit, Seq(Option<usize>), SeqEnd, Map(Option<usize>), MapEnd, Pad }
pub struct Rec { pub t: [Tk; 24], pub n: usize, pub overflow: bool }
impl Rec { pub fn new() -> Rec { Rec { t: [Tk::Pad; 24], n: 0, overflow: false } } fn push(&mut self, k: Tk) { if self.n < 24 { self.t[self.n] = k; self.n += 1; } else { self.overflow = true; } } }
#[derive(Debug)]
pub struct TErr;
impl core::fmt::Display for TErr { fn fmt(&self, f: &mut core::fmt::Formatter<'_>) -> core::fmt::Result { f.write_str("token format error") } }
impl serde::ser::Error for TErr { fn custom<T: core::fmt::Display>(_m: T) -> Self { TErr } }
impl serde::de::Error for TErr { fn custom<T: core::fmt::Display>(_m: T) -> Self { TErr } }
impl serde::ser::StdError for TErr {}

pub struct Ser<'a>(pub &'a mut Rec);
type Imp = serde::ser::Impossible<(), TErr>;
impl<'a> serde::Serializer for Ser<'a> {
    type Ok = ();
    type Error = TErr;
    type SerializeSeq = Ser<'a>;
    type SerializeTuple = Imp;
    type SerializeTupleStruct = Imp;
    type SerializeTupleVariant = Imp;
    type SerializeMap = Ser<'a>;
    type SerializeStruct = Imp;
    type SerializeStructVariant = Imp;
    fn serialize_u8(self, v: u8) -> Result<(), TErr> { self.0.push(Tk::U8(v)); Ok(()) }
    fn serialize_unit(self) -> Result<(), TErr> { self.0.push(Tk::Unit); Ok(()) }
    fn serialize_seq(self, len: Option<usize>) -> Result<Ser<'a>, TErr> { self.0.push(Tk::Seq(len)); Ok(self) }
    fn serialize_map(self, len: Option<usize>) -> Result<Ser<'a>, TErr> { self.0.push(Tk::Map(len)); Ok(self) }
    fn collect_str<T: ?Sized + core::fmt::Display>(self, _v: &T) -> Result<(), TErr> { Err(TErr) }
    fn serialize_bool(self, _v: bool) -> Result<(), TErr> { Err(TErr) }
    fn serialize_i8(self, _v: i8) -> Result<(), TErr> { Err(TErr) }
    fn serialize_i16(self, _v: i16) -> Result<(), TErr> { Err(TErr) }
    fn serialize_i32(self, _v: i32) -> Result<(), TErr> { Err(TErr) }
    fn serialize_i64(self, _v: i64) -> Result<(), TErr> { Err(TErr) }
    fn serialize_u16(self, _v: u16) -> Result<(), TErr> { Err(TErr) }
    fn serialize_u32(self, _v: u32) -> Result<(), TErr> { Err(TErr) }
    fn serialize_u64(self, _v: u64) -> Result<(), TErr> { Err(TErr) }
    fn serialize_f32(self, _v: f32) -> Result<(), TErr> { Err(TErr) }
    fn serialize_f64(self, _v: f64) -> Result<(), TErr> { Err(TErr) }
    fn serialize_char(self, _v: char) -> Result<(), TErr> { Err(TErr) }
    fn serialize_str(self, _v: &str) -> Result<(), TErr> { Err(TErr) }
    fn serialize_bytes(self, _v: &[u8]) -> Result<(), TErr> { Err(TErr) }
    fn serialize_none(self) -> Result<(), TErr> { Err(TErr) }
    fn serialize_some<T: ?Sized + serde::Serialize>(self, _v: &T) -> Result<(), TErr> { Err(TErr) }
    fn serialize_unit_struct(self, _n: &'static str) -> Result<(), TErr> { Err(TErr) }
    fn serialize_unit_variant(self, _n: &'static str, _i: u32, _v: &'static str) -> Result<(), TErr> { Err(TErr) }
    fn serialize_newtype_struct<T: ?Sized + serde::Serialize>(self, _n: &'static str, _v: &T) -> Result<(), TErr> { Err(TErr) }
    fn serialize_newtype_variant<T: ?Sized + serde::Serialize>(self, _n: &'static str, _i: u32, _var: &'static str, _v: &T) -> Result<(), TErr> { Err(TErr) }
    fn serialize_tuple(self, _l: usize) -> Result<Imp, TErr> { Err(TErr) }
    fn serialize_tuple_struct(self, _n: &'static str, _l: usize) -> Result<Imp, TErr> { Err(TErr) }
    fn serialize_tuple_variant(self, _n: &'static str, _i: u32, _v: &'static str, _l: usize) -> Result<Imp, TErr> { Err(TErr) }
    fn serialize_struct(self, _n: &'static str, _l: usize) -> Result<Imp, TErr> { Err(TErr) }
    fn serialize_struct_variant(self, _n: &'static str, _i: u32, _v: &'static str, _l: usize) -> Result<Imp, TErr> { Err(TErr) }
}
impl<'a> serde::ser::SerializeSeq for Ser<'a> {
    type Ok = ();
    type Error = TErr;
    fn serialize_element<T: ?Sized + serde::Serialize>(&mut self, v: &T) -> Result<(), TErr> { v.serialize(Ser(&mut *self.0)) }
    fn end(self) -> Result<(), TErr> { self.0.push(Tk::SeqEnd); Ok(()) }
}
impl<'a> serde::ser::SerializeMap for Ser<'a> {
    type Ok = ();
    type Error = TErr;
    fn serialize_key<T: ?Sized + serde::Serialize>(&mut self, k: &T) -> Result<(), TErr> { k.serialize(Ser(&mut *self.0)) }
    fn serialize_value<T: ?Sized + serde::Serialize>(&mut self, v: &T) -> Result<(), TErr> { v.serialize(Ser(&mut *self.0)) }
    fn end(self) -> Result<(), TErr> { self.0.push(Tk::MapEnd); Ok(()) }
}

pub struct De<'a> { pub t: &'a [Tk], pub pos: usize }
impl<'a> De<'a> { fn peek(&self) -> Tk { if self.pos < self.t.len() { self.t[self.pos] } else { Tk::Pad } } }
impl<'de, 'a, 'b> serde::Deserializer<'de> for &'b mut De<'a> {
    type Error = TErr;
    fn deserialize_any<V: serde::de::Visitor<'de>>(self, v: V) -> Result<V::Value, TErr> {
        let k = self.peek();
        self.pos += 1;
        match k {
            Tk::U8(x) => v.visit_u8(x),
            Tk::Unit => v.visit_unit(),
            Tk::Seq(_) => v.visit_seq(Acc(&mut *self)),
            Tk::Map(_) => v.visit_map(Acc(&mut *self)),
            _ => Err(TErr),
        }
    }
    serde::forward_to_deserialize_any! { bool i8 i16 i32 i64 i128 u8 u16 u32 u64 u128 f32 f64 char str string bytes byte_buf option unit unit_struct
        newtype_struct seq tuple tuple_struct map struct enum identifier ignored_any }
}
struct Acc<'b, 'a>(&'b mut De<'a>);
impl<'de, 'a, 'b> serde::de::SeqAccess<'de> for Acc<'b, 'a> {
    type Error = TErr;
    fn next_element_seed<S: serde::de::DeserializeSeed<'de>>(&mut self, seed: S) -> Result<Option<S::Value>, TErr> {
        if self.0.peek() == Tk::SeqEnd { self.0.pos += 1; return Ok(None); }
        seed.deserialize(&mut *self.0).map(Some)
    }
}
impl<'de, 'a, 'b> serde::de::MapAccess<'de> for Acc<'b, 'a> {
    type Error = TErr;
    fn next_key_seed<S: serde::de::DeserializeSeed<'de>>(&mut self, seed: S) -> Result<Option<S::Value>, TErr> {
        if self.0.peek() == Tk::MapEnd { self.0.pos += 1; return Ok(None); }
        seed.deserialize(&mut *self.0).map(Some)
    }
    fn next_value_seed<S: serde::de::DeserializeSeed<'de>>(&mut self, seed: S) -> Result<S::Value, TErr> { seed.deserialize(&mut *self.0) }
}

/// round trip through the token format: the emitted shape is a map (resp. a sequence) announcing exactly len() entries and
/// containing exactly len() of them, and reading the tokens back into any capacity M >= len gives an equal container
pub fn c20_tokens<const N: usize, const M: usize>() {
    use serde::{Deserialize, Serialize};
    let (m, md) = any_u8_map::<N>();
    vf::assume(md.n <= M);
    let mut rec = Rec::new();
    vf::check(m.serialize(Ser(&mut rec)).is_ok() && !rec.overflow, 2004);
    vf::check(rec.t[0] == Tk::Map(Some(md.n)), 2001);
    vf::check(rec.n == 2 + 2 * md.n && rec.t[(1 + 2 * md.n) % 24] == Tk::MapEnd, 2002);
    let p = vf::any_usize();
    if p < md.n {
        // every entry is a (u8 key, u8 value) pair of the source map
        match (rec.t[(1 + 2 * p) % 24], rec.t[(2 + 2 * p) % 24]) { (Tk::U8(k), Tk::U8(v)) => vf::check(md.get(k) == Some(v), 2002), _ => vf::check(false, 2002) }
    }
    let mut de = De { t: &rec.t[..rec.n], pos: 0 };
    match Map::<u8, u8, M>::deserialize(&mut de) {
        Ok(d) => { vf::reach(1); vf::check(d == m && m == d && de.pos == rec.n, 2003); }
        Err(_) => vf::check(false, 2004),
    }
    same_u8_map(&m, &md);
    // sets
    let (s, sd) = any_u8_set::<N>();
    vf::assume(sd.n <= M);
    let mut rec = Rec::new();
    vf::check(s.serialize(Ser(&mut rec)).is_ok() && !rec.overflow, 2004);
    vf::check(rec.t[0] == Tk::Seq(Some(sd.n)), 2001);
    vf::check(rec.n == 2 + sd.n && rec.t[(1 + sd.n) % 24] == Tk::SeqEnd, 2002);
    if p < sd.n { match rec.t[(1 + p) % 24] { Tk::U8(k) => vf::check(sd.has(k), 2002), _ => vf::check(false, 2002) } }
    let mut de = De { t: &rec.t[..rec.n], pos: 0 };
    match Set::<u8, M>::deserialize(&mut de) {
        Ok(d) => { vf::check(d == s && de.pos == rec.n, 2003); }
        Err(_) => vf::check(false, 2004),
    }
    same_u8_set(&s, &sd);
}

harnesses! {
    c20_tokens: [0, 0] [1, 1] [2, 2] [2, 3] [3, 3];
    c20_zst: [1, 0] [1, 1] [2, 0] [2, 1];
    c20_value_de: [1, 1] [2, 2] [2, 3] [3, 3];
    c20_bincode_map: [0, 0] [1, 1] [2, 2] [3, 3] [2, 3] [1, 3];
    c20_bincode_set: [0, 0] [1, 1] [2, 2] [3, 3] [2, 3] [1, 3];
    @deep
    c20_bincode_map: [4, 4] [3, 5];
    c20_bincode_set: [4, 4] [3, 5];
}
