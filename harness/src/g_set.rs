//! Group `g_set`: Set operations against the model set (C07; C02/C05/C12 ids ride along).
//! ids 701 insert return, 702 replace return, 703 contains, 704 get, 705 remove return, 706 take return,
//! 707 retain predicate saw a non-live element, 708 extend result, 709 stored/returned object identity (C12)
use crate::model::*;
use crate::tok::{self, BKey, Tok};
use crate::vf;
use micromap::Set;

pub fn c07_insert<const N: usize>() {
    tok::reset();
    let (mut s, mut md) = any_set::<N>();
    let k = vf::any_u8();
    vf::assume(md.n < N || md.has(k));
    let kt = Tok::tagged(k, 1);
    let ks = kt.serial();
    let was = md.has(k);
    let r = s.insert(kt);
    md.insert(k, 0, ks, 0);
    vf::check(r == !was, 701);
    if was { vf::reach(1); vf::check(tok::dead(ks), 709); } else { vf::reach(2); vf::check(tok::live(ks), 709); }
    observe_set(&s, &md);
    finish_set(s);
}

pub fn c07_replace<const N: usize>() {
    tok::reset();
    let (mut s, mut md) = any_set::<N>();
    let k = vf::any_u8();
    vf::assume(md.n < N || md.has(k));
    let kt = Tok::tagged(k, 1);
    let ks = kt.serial();
    let r = s.replace(kt);
    let e = md.insert_kv(k, 0, ks, 0);
    match (&r, e) {
        (Some(o), Some((eks, _, _))) => { vf::reach(1); vf::check(o.key() == k, 702); vf::check(o.serial() == eks && tok::live(eks), 709); }
        (None, None) => { vf::reach(2); }
        _ => vf::check(false, 702),
    }
    vf::check(tok::live(ks), 709);
    observe_set(&s, &md);
    drop(r);
    finish_set(s);
}

/// contains / get by element and by borrowed form
pub fn c07_lookup<const N: usize>() {
    tok::reset();
    let (s, md) = any_set::<N>();
    let q = vf::any_u8();
    let qt = Tok::new(q);
    let qb = BKey::free(q);
    let want = md.find(q);
    if want.is_some() { vf::reach(1); } else { vf::reach(2); }
    vf::check(s.contains(&qt) == want.is_some() && s.contains(&qb) == want.is_some(), 703);
    match (s.get(&qt), s.get(&qb), want) {
        (Some(a), Some(b), Some(i)) => {
            vf::check(core::ptr::eq(a, b) && a.key() == q, 704);
            vf::check(a.serial() == md.ks[i], 709);
            vf::check(vf::ptr_within(a as *const Tok, &s), 501);
        }
        (None, None, None) => {}
        _ => vf::check(false, 704),
    }
    drop(qt);
    observe_set(&s, &md);
    finish_set(s);
}

pub fn c07_remove<const N: usize>() {
    tok::reset();
    let (mut s, mut md) = any_set::<N>();
    let k = vf::any_u8();
    let r = if vf::any_bool() { s.remove(&BKey::free(k)) } else { let kt = Tok::new(k); s.remove(&kt) };
    let e = md.remove(k);
    vf::check(r == e.is_some(), 705);
    if let Some((eks, _, _)) = e { vf::reach(1); vf::check(tok::dead(eks), 709); } else { vf::reach(2); }
    observe_set(&s, &md);
    finish_set(s);
}

pub fn c07_take<const N: usize>() {
    tok::reset();
    let (mut s, mut md) = any_set::<N>();
    let k = vf::any_u8();
    let r = if vf::any_bool() { s.take(&BKey::free(k)) } else { let kt = Tok::new(k); s.take(&kt) };
    let e = md.remove(k);
    match (&r, e) {
        (Some(o), Some((eks, _, _))) => { vf::reach(1); vf::check(o.key() == k, 706); vf::check(o.serial() == eks && tok::live(eks), 709); }
        (None, None) => { vf::reach(2); }
        _ => vf::check(false, 706),
    }
    observe_set(&s, &md);
    drop(r);
    finish_set(s);
}

pub fn c07_retain<const N: usize>() {
    tok::reset();
    let (mut s, mut md) = any_set::<N>();
    let mask = vf::any_u8();
    s.retain(|k| { vf::check(tok::live(k.serial()), 707); keep(mask, k.key()) });
    let before = md.n;
    md.retain(mask);
    if md.n < before { vf::reach(1); } else { vf::reach(2); }
    observe_set(&s, &md);
    finish_set(s);
}

pub fn c07_clear<const N: usize>() {
    tok::reset();
    let (mut s, mut md) = any_set::<N>();
    let before = tok::dropped();
    s.clear();
    vf::check(tok::dropped() == before + md.n, 481);
    md.clear();
    vf::reach(1);
    observe_set(&s, &md);
    let mut i = 0;
    while i < N {
        let kt = Tok::new(i as u8);
        md.insert(i as u8, 0, kt.serial(), 0);
        vf::check(s.insert(kt), 482);
        i += 1;
    }
    observe_set(&s, &md);
    finish_set(s);
}

pub fn c07_drain<const N: usize>() {
    tok::reset();
    let (mut s, mut md) = any_set::<N>();
    let q = vf::any_u8();
    let want = md.find(q);
    let (mut cnt, mut total) = (0usize, 0usize);
    for k in s.drain() {
        vf::check(tok::live(k.serial()), 904);
        total += 1;
        if k.key() == q { cnt += 1; if let Some(i) = want { vf::check(k.serial() == md.ks[i], 709); } }
    }
    vf::check(total == md.n, 492);
    vf::check(cnt == want.is_some() as usize, 491);
    md.clear();
    vf::reach(1);
    observe_set(&s, &md);
    finish_set(s);
}

/// source iterator that counts how often it is pulled
pub struct Src<const L: usize> { pub items: [Option<Tok>; L], pub pos: usize, pub len: usize, pub pulled: usize, pub slack_lo: usize, pub slack_hi: Option<usize> }
impl<const L: usize> Iterator for Src<L> {
    type Item = Tok;
    fn next(&mut self) -> Option<Tok> {
        self.pulled += 1;
        tok::fault_point();
        if self.pos < self.len && self.pos < L { let i = self.pos; self.pos += 1; self.items[i].take() } else { None }
    }
    /// any size_hint the Iterator contract allows (solver-chosen slack)
    fn size_hint(&self) -> (usize, Option<usize>) {
        let rem = self.len - self.pos;
        (rem.saturating_sub(self.slack_lo), self.slack_hi.map(|s| rem.saturating_add(s)))
    }
}

/// Extend<T>: symbolic item sequence of length <= L with arbitrary repetition; equals inserting one by one
pub fn c07_extend<const N: usize, const L: usize>() {
    tok::reset();
    let (mut s, mut md) = any_set::<N>();
    let len = vf::any_usize();
    vf::assume(len <= L);
    let mut src = Src::<L> { items: [const { None }; L], pos: 0, len, pulled: 0, slack_lo: vf::any_usize(), slack_hi: if vf::any_bool() { Some(vf::any_usize()) } else { None } };
    let mut ks = [0u8; L];
    let mut sers = [0u16; L];
    let mut i = 0;
    while i < L {
        ks[i] = vf::any_u8();
        if i < len { let t = Tok::tagged(ks[i], 2); sers[i] = t.serial(); src.items[i] = Some(t); }
        i += 1;
    }
    // stay within capacity (overflow is C03 / C16)
    let mut sim = md;
    let mut i = 0;
    while i < L { if i < len { vf::assume(sim.n < N || sim.has(ks[i])); sim.insert(ks[i], 0, sers[i], 0); } i += 1; }
    s.extend(&mut src);
    vf::check(src.pulled == len || src.pulled == len + 1, 708); // every item pulled once; the terminating None is optional
    md = sim;
    if len > 0 { vf::reach(1); } else { vf::reach(2); }
    observe_set(&s, &md);
    drop(src);
    finish_set(s);
}

/// iterator over references that counts how often it is pulled
pub struct RefSrc<'a, const L: usize> { pub items: &'a [u8; L], pub pos: usize, pub len: usize, pub pulled: usize }
impl<'a, const L: usize> Iterator for RefSrc<'a, L> {
    type Item = &'a u8;
    fn next(&mut self) -> Option<&'a u8> {
        self.pulled += 1;
        if self.pos < self.len && self.pos < L { let i = self.pos; self.pos += 1; Some(&self.items[i]) } else { None }
    }
}

/// Extend<&T> on a Copy element type: equals inserting the items one by one, in order -- including the panic when an item
/// does not fit (the source is consumed front to back up to that item, never abandoned silently)
pub fn c07_extend_ref<const N: usize, const L: usize>() {
    let mut s: Set<u8, N> = empty_set();
    let mut md = Model::<N>::new();
    let n = vf::any_usize();
    vf::assume(n <= N);
    let mut i = 0;
    while i < N {
        let k = vf::any_u8();
        if i < n { vf::assume(!md.has(k)); md.insert(k, 0, 0, 0); vf::check(s.insert(k), 100); }
        i += 1;
    }
    let len = vf::any_usize();
    vf::assume(len <= L);
    let mut items = [0u8; L];
    let mut i = 0;
    while i < L { items[i] = vf::any_u8(); i += 1; }
    // what one-by-one insertion does: stops with a panic at the first item that does not fit
    let mut overflow_at = usize::MAX;
    let mut i = 0;
    while i < L {
        if i < len && overflow_at == usize::MAX { if md.n == N && !md.has(items[i]) { overflow_at = i; } else { md.insert(items[i], 0, 0, 0); } }
        i += 1;
    }
    if !vf::CAN_CATCH { vf::assume(overflow_at == usize::MAX); }
    let mut src = RefSrc::<L> { items: &items, pos: 0, len, pulled: 0 };
    let panicked = { let (ss, it) = (&mut s, &mut src); vf::catch(move || { ss.extend(it); }) };
    if overflow_at == usize::MAX {
        vf::reach(1);
        vf::check(!panicked, 708);
        vf::check(src.pulled == len || src.pulled == len + 1, 708);
    } else {
        vf::reach(2);
        vf::check(panicked, 708);
        vf::check(src.pulled <= overflow_at + 2, 708); // one item of look-ahead is tolerated (see c16_from_iter)
    }
    vf::check(s.len() == md.n, 201);
    let q = vf::any_u8();
    vf::check(s.contains(&q) == md.has(q), 204);
    let (mut cnt, mut total) = (0usize, 0usize);
    for k in s.iter() { total += 1; if *k == q { cnt += 1; } }
    vf::check(total == md.n, 202);
    vf::check(cnt == md.has(q) as usize, 203);
}

/// wider capacities on plain `Set<u8,N>`: one solver-chosen operation against the model set
pub fn c07u_ops<const N: usize>() {
    let (mut s, mut md) = any_u8_set::<N>();
    let (op, k) = (vf::any_u8(), vf::any_u8());
    vf::assume(op < 8);
    match op {
        0 => { vf::assume(md.n < N || md.has(k)); vf::reach(1); let was = md.has(k); md.insert(k, 0, 0, 0); vf::check(s.insert(k) == !was, 701); }
        1 => { vf::assume(md.n < N || md.has(k)); let was = md.has(k); md.insert(k, 0, 0, 0); vf::check(s.replace(k) == if was { Some(k) } else { None }, 702); }
        2 => { vf::reach(2); let was = md.remove(k).is_some(); vf::check(s.remove(&k) == was, 705); }
        3 => { let was = md.remove(k).is_some(); vf::check(s.take(&k) == if was { Some(k) } else { None }, 706); }
        4 => { vf::check(s.contains(&k) == md.has(k) && s.get(&k).copied() == if md.has(k) { Some(k) } else { None }, 703); }
        5 => { s.retain(|x| keep(k, *x)); md.retain(k); }
        6 => { let c = s.clone(); vf::check(c == s && c.len() == md.n && c.is_subset(&s) && s.is_superset(&c) && (md.n == 0 || !c.is_disjoint(&s)), 1502); }
        _ => { let mut t = 0usize; let mut it = s.iter(); vf::check(it.len() == md.n, 601); while let Some(x) = it.next() { t += 1; vf::check(md.has(*x) && it.len() == md.n - t, 601); } vf::check(t == md.n && it.next().is_none(), 604); }
    }
    same_u8_set(&s, &md);
    vf::check(s.len() <= s.capacity() && s.capacity() == N && s.is_empty() == (md.n == 0), 206);
}

/// wide capacities on `Set<u8,N>` from a concrete pre-state of F elements: one solver-chosen operation (see `c01w_ops`)
pub fn c07w_ops<const N: usize, const F: usize>() {
    let mut s: Set<u8, N> = Set::new();
    let mut md = Model::<N>::new();
    let mut i = 0;
    while i < F { let k = wide_key(i); md.insert(k, 0, 0, 0); vf::check(s.insert(k), 100); i += 1; }
    if F >= 3 { let k = wide_key(F / 3); vf::check(s.remove(&k) == md.remove(k).is_some(), 100); md.insert(k, 0, 0, 0); vf::check(s.insert(k), 100); }
    let mut step = 0;
    while step < 1 {
        let (op, k) = (vf::any_u8(), vf::any_u8());
        vf::assume(op < 8);
        match op {
            0 => { vf::assume(md.n < N || md.has(k)); vf::reach(1); let was = md.has(k); md.insert(k, 0, 0, 0); vf::check(s.insert(k) == !was, 701); }
            1 => { vf::assume(md.n < N || md.has(k)); let was = md.has(k); md.insert(k, 0, 0, 0); vf::check(s.replace(k) == if was { Some(k) } else { None }, 702); }
            2 => { vf::reach(2); let was = md.remove(k).is_some(); vf::check(s.remove(&k) == was, 705); }
            3 => { let was = md.remove(k).is_some(); vf::check(s.take(&k) == if was { Some(k) } else { None }, 706); }
            4 => { vf::check(s.contains(&k) == md.has(k) && s.get(&k).copied() == if md.has(k) { Some(k) } else { None }, 703); }
            5 => { s.retain(|x| keep(k, *x)); md.retain(k); }
            6 => { let c = s.clone(); vf::check(c == s && c.len() == md.n && c.is_subset(&s) && s.is_superset(&c) && (md.n == 0 || !c.is_disjoint(&s)), 1502); }
            _ => { let mut t = 0usize; let mut it = s.iter(); vf::check(it.len() == md.n, 601); while let Some(x) = it.next() { t += 1; vf::check(md.has(*x) && it.len() == md.n - t, 601); } vf::check(t == md.n && it.next().is_none(), 604); }
        }
        step += 1;
    }
    vf::reach(3);
    same_u8_set(&s, &md);
    vf::check(s.len() <= s.capacity() && s.capacity() == N && s.is_empty() == (md.n == 0), 206);
}

/// `Set<(), N>`: zero-sized elements, one element at most; three solver-chosen operations against a one-bit model
pub fn c07_zst<const N: usize>() {
    let mut s: Set<(), N> = empty_set();
    let mut has = false;
    let mut step = 0;
    while step < 3 {
        let (op, b) = (vf::any_u8(), vf::any_bool());
        vf::assume(op < 9);
        match op {
            0 => { vf::reach(1); vf::check(s.insert(()) == !has, 701); has = true; }
            1 => { vf::check(s.replace(()).is_some() == has, 702); has = true; }
            2 => { vf::reach(2); vf::check(s.remove(&()) == has, 703); has = false; }
            3 => { vf::check(s.take(&()).is_some() == has, 704); has = false; }
            4 => { s.retain(|_| b); has = has && b; }
            5 => { vf::check(s.contains(&()) == has && s.get(&()).is_some() == has, 705); }
            6 => { let c = s.clone(); vf::check(c == s && c.len() == s.len() && c.is_subset(&s) && s.is_subset(&c) && c.is_disjoint(&s) == !has, 1502); }
            7 => { s.clear(); has = false; }
            _ => { let o: Set<(), N> = if b && N > 0 { Set::from_iter([()]) } else { Set::new() };
                   vf::check(s.union(&o).count() == (has || (b && N > 0)) as usize, 803);
                   vf::check(s.intersection(&o).count() == (has && b && N > 0) as usize, 803);
                   vf::check(s.difference(&o).count() == (has && !(b && N > 0)) as usize, 803);
                   vf::check(s.symmetric_difference(&o).count() == (has != (b && N > 0)) as usize, 803); }
        }
        let n = has as usize;
        vf::check(s.len() == n && s.is_empty() == !has && s.capacity() == N, 201);
        let mut t = 0usize;
        for _ in s.iter() { t += 1; }
        vf::check(t == n, 202);
        step += 1;
    }
}

harnesses! {
    c07_zst: [1] [2];
    c07u_ops: [4] [6] [8];
    c07w_ops: [18, 17] [18, 16];
    c07_insert: [1] [2] [3];
    c07_replace: [1] [2] [3];
    c07_lookup: [0] [1] [2] [3];
    c07_remove: [0] [1] [2] [3];
    c07_take: [0] [1] [2] [3];
    c07_retain: [0] [1] [2] [3];
    c07_clear: [0] [1] [2] [3];
    c07_drain: [0] [1] [2] [3];
    c07_extend: [1, 2] [2, 3] [3, 3];
    c07_extend_ref: [1, 2] [2, 3] [3, 3];
    @deep
    c07u_ops: [10] [12];
    c07_insert: [4] [5];
    c07_replace: [4] [5];
    c07_lookup: [4] [5];
    c07_remove: [4] [5];
    c07_take: [4] [5];
    c07_retain: [4] [5];
    c07_clear: [4] [5];
    c07_drain: [4] [5];
    c07_extend: [3, 4] [4, 4];
    c07_extend_ref: [3, 4] [4, 4];
}
