//! Group `g_entry`: the entry API against the model of the corresponding direct map operations (C11; C12 ids ride along).
//! ids 1101 Occupied iff present, 1102 returned reference is not the entry's value place, 1103 closure call count,
//! 1104 fate of the supplied key/value objects, 1105 key()/into_key() identity, 1106 OccupiedEntry get/get_mut/insert,
//! 1107 OccupiedEntry remove/remove_entry, 1108 VacantEntry insert
use crate::model::*;
use crate::tok::{self, BKey, Tok};
use crate::vf;
use micromap::Entry;

/// or_insert / or_insert_with / or_insert_with_key / or_default / and_modify().or_insert (solver picks)
pub fn c11_or<const N: usize>() {
    tok::reset();
    let (mut m, mut md) = any_map::<N>();
    let (k, v, which) = (vf::any_u8(), vf::any_u8(), vf::any_u8());
    vf::assume(which < 5);
    vf::assume(md.n < N || md.has(k));
    let present = md.find(k);
    let kt = Tok::tagged(k, 7);
    let ks = kt.serial();
    let mut calls = 0usize;
    let mut modcalls = 0usize;
    let mut seen_key = tok::FREE;
    let mut seen_val = tok::FREE;
    let created0 = tok::created();
    let (ret_addr, ret_serial) = {
        let r: &mut Tok = match which {
            0 => m.entry(kt).or_insert(Tok::new(v)),
            1 => m.entry(kt).or_insert_with(|| { calls += 1; Tok::new(v) }),
            2 => m.entry(kt).or_insert_with_key(|kk| { calls += 1; seen_key = kk.serial(); Tok::new(v) }),
            3 => m.entry(kt).or_default(),
            _ => m.entry(kt).and_modify(|x| { modcalls += 1; seen_val = x.serial(); x.set_tag(0x33); }).or_insert(Tok::new(v)),
        };
        (r as *mut Tok as usize, r.serial())
    };
    match present {
        Some(i) => {
            vf::reach(1);
            // nothing inserted; closures not run; supplied key (and eager value) destroyed; reference = stored value
            vf::check(calls == 0, 1103);
            vf::check(ret_serial == md.vs[i], 1102);
            vf::check(tok::dead(ks), 1104);
            if which == 0 || which == 4 { vf::check(tok::created() == created0 + 1 && tok::dead(created0 as u16), 1104); }
            else { vf::check(tok::created() == created0, 1103); }
            if which == 4 { vf::check(modcalls == 1 && seen_val == md.vs[i], 1103); }
        }
        None => {
            vf::reach(2);
            vf::check(modcalls == 0, 1103);
            if which == 1 || which == 2 { vf::check(calls == 1, 1103); }
            if which == 2 { vf::check(seen_key == ks, 1105); }
            vf::check(tok::created() == created0 + 1, 1103); // exactly one value object was made
            vf::check(ret_serial == created0 as u16 && tok::live(ret_serial) && tok::live(ks), 1104);
            let newval = if which == 3 { 0 } else { v };
            md.insert(k, newval, ks, ret_serial);
        }
    }
    // the returned reference is the place get_mut gives for that key
    match m.get_mut(&BKey::free(k)) {
        Some(g) => vf::check(g as *mut Tok as usize == ret_addr, 1102),
        None => vf::check(false, 1102),
    }
    observe(&m, &md);
    well_formed(&m);
    finish(m);
}

/// Entry::key, OccupiedEntry::{key,get,get_mut,insert,into_mut,remove,remove_entry}, VacantEntry::{key,into_key,insert}
pub fn c11_variants<const N: usize>() {
    tok::reset();
    let (mut m, mut md) = any_map::<N>();
    let (k, v, which) = (vf::any_u8(), vf::any_u8(), vf::any_u8());
    vf::assume(which < 4);
    let present = md.find(k);
    let kt = Tok::tagged(k, 7);
    let ks = kt.serial();
    let e = m.entry(kt);
    match (e, present) {
        (Entry::Occupied(mut o), Some(i)) => {
            vf::reach(1);
            vf::check(tok::dead(ks), 1104); // the supplied key is not kept by an occupied entry
            vf::check(o.key().serial() == md.ks[i], 1105);
            vf::check(o.get().serial() == md.vs[i], 1106);
            vf::check(o.get_mut().serial() == md.vs[i], 1106);
            match which {
                0 => {
                    let nv = Tok::new(v);
                    let nvs = nv.serial();
                    let old = o.insert(nv);
                    vf::check(old.serial() == md.vs[i], 1106);
                    vf::check(o.get().serial() == nvs, 1106);
                    md.vals[i] = v; md.vs[i] = nvs;
                    drop(old);
                }
                1 => {
                    let r = o.into_mut();
                    vf::check(r.serial() == md.vs[i], 1106);
                    r.set_tag(0x44);
                }
                2 => {
                    let old = o.remove();
                    vf::check(old.serial() == md.vs[i] && tok::live(md.vs[i]) && tok::dead(md.ks[i]), 1107);
                    md.remove(k);
                    drop(old);
                }
                _ => {
                    let (ok, ov) = o.remove_entry();
                    vf::check(ok.serial() == md.ks[i] && ov.serial() == md.vs[i], 1107);
                    md.remove(k);
                    drop((ok, ov));
                }
            }
        }
        (Entry::Vacant(ve), None) => {
            vf::reach(2);
            vf::check(ve.key().serial() == ks && tok::live(ks), 1105);
            if which < 2 {
                vf::assume(md.n < N);
                let nv = Tok::new(v);
                let nvs = nv.serial();
                let r = ve.insert(nv);
                vf::check(r.serial() == nvs, 1108);
                md.insert(k, v, ks, nvs);
            } else {
                let back = ve.into_key();
                vf::check(back.serial() == ks, 1105);
                drop(back);
            }
        }
        (e, _) => {
            vf::check(false, 1101);
            drop(e);
        }
    }
    observe(&m, &md);
    well_formed(&m);
    finish(m);
}

/// Entry::key() on the enum, and `and_modify` alone (returns the entry unchanged in kind)
pub fn c11_key_and_modify<const N: usize>() {
    tok::reset();
    let (mut m, md) = any_map::<N>();
    let k = vf::any_u8();
    let present = md.find(k);
    let kt = Tok::tagged(k, 7);
    let ks = kt.serial();
    let mut modcalls = 0usize;
    {
        let e = m.entry(kt);
        match present {
            Some(i) => vf::check(e.key().serial() == md.ks[i], 1105),
            None => vf::check(e.key().serial() == ks, 1105),
        }
        let e = e.and_modify(|x| { modcalls += 1; x.set_tag(0x55); });
        match (&e, present) {
            (Entry::Occupied(_), Some(_)) => { vf::reach(1); }
            (Entry::Vacant(_), None) => { vf::reach(2); }
            _ => vf::check(false, 1101),
        }
        drop(e);
    }
    vf::check(modcalls == present.is_some() as usize, 1103);
    if let Some(i) = present {
        match m.get(&BKey::free(k)) { Some(g) => vf::check(g.tag() == 0x55 && g.serial() == md.vs[i], 1106), None => vf::check(false, 1106) }
    }
    vf::check(tok::dead(ks), 1104); // a dropped entry destroys the supplied key (vacant) / it was never kept (occupied)
    observe(&m, &md);
    well_formed(&m);
    finish(m);
}

harnesses! {
    c11_or: [1] [2] [3];
    c11_variants: [0] [1] [2] [3];
    c11_key_and_modify: [0] [1] [2] [3];
    @deep
    c11_or: [4] [5];
    c11_variants: [4] [5];
    c11_key_and_modify: [4] [5];
}
