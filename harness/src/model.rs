//! Reference model ("ideal finite dictionary of capacity N") and the common pre-state / observation
//! helpers.  Naive fixed-bound loops, no unsafe.  Slot order is deliberately NOT part of the model:
//! all comparisons with the real container go through order-free observations.
use crate::tok::{self, BKey, Tok};
use crate::vf;
use micromap::{Map, Set};

#[derive(Clone, Copy)]
pub struct Model<const N: usize> {
    pub n: usize,
    pub keys: [u8; N],
    pub vals: [u8; N],
    /// serial of the key / value object the container is expected to hold (C12, C02)
    pub ks: [u16; N],
    pub vs: [u16; N],
}

impl<const N: usize> Model<N> {
    pub const fn new() -> Self { Model { n: 0, keys: [0; N], vals: [0; N], ks: [0; N], vs: [0; N] } }
    pub fn find(&self, k: u8) -> Option<usize> {
        let mut i = 0;
        while i < N {
            if i < self.n && self.keys[i] == k { return Some(i); }
            i += 1;
        }
        None
    }
    pub fn get(&self, k: u8) -> Option<u8> { match self.find(k) { Some(i) => Some(self.vals[i]), None => None } }
    pub fn has(&self, k: u8) -> bool { self.find(k).is_some() }
    pub fn full(&self) -> bool { self.n == N }
    /// `insert`: keeps the stored key object, replaces the value; returns old (value, value serial)
    pub fn insert(&mut self, k: u8, v: u8, ks: u16, vs: u16) -> Option<(u8, u16)> {
        if let Some(i) = self.find(k) {
            let o = (self.vals[i], self.vs[i]);
            self.vals[i] = v;
            self.vs[i] = vs;
            return Some(o);
        }
        if self.n < N {
            self.keys[self.n] = k; self.vals[self.n] = v; self.ks[self.n] = ks; self.vs[self.n] = vs;
            self.n += 1;
        }
        None
    }
    /// `insert_key_value` / `Set::replace`: stores the supplied key object; returns old (key serial, value, value serial)
    pub fn insert_kv(&mut self, k: u8, v: u8, ks: u16, vs: u16) -> Option<(u16, u8, u16)> {
        if let Some(i) = self.find(k) {
            let o = (self.ks[i], self.vals[i], self.vs[i]);
            self.ks[i] = ks; self.vals[i] = v; self.vs[i] = vs;
            return Some(o);
        }
        if self.n < N {
            self.keys[self.n] = k; self.vals[self.n] = v; self.ks[self.n] = ks; self.vs[self.n] = vs;
            self.n += 1;
        }
        None
    }
    /// returns (key serial, value, value serial) of the removed entry
    pub fn remove(&mut self, k: u8) -> Option<(u16, u8, u16)> {
        if let Some(i) = self.find(k) {
            let o = (self.ks[i], self.vals[i], self.vs[i]);
            self.n -= 1;
            let l = self.n;
            self.keys[i] = self.keys[l]; self.vals[i] = self.vals[l]; self.ks[i] = self.ks[l]; self.vs[i] = self.vs[l];
            return Some(o);
        }
        None
    }
    /// keep the entries whose key class bit is set in `mask`
    pub fn retain(&mut self, mask: u8) {
        let mut out = Model::<N>::new();
        let mut i = 0;
        while i < N {
            if i < self.n && keep(mask, self.keys[i]) {
                let o = out.n;
                out.keys[o] = self.keys[i]; out.vals[o] = self.vals[i]; out.ks[o] = self.ks[i]; out.vs[o] = self.vs[i];
                out.n += 1;
            }
            i += 1;
        }
        *self = out;
    }
    pub fn clear(&mut self) { self.n = 0; }
}

/// key stored in slot `i` of the concrete wide pre-state: 37 is odd, so the keys are pairwise different for i < 256
#[inline(always)]
pub fn wide_key(i: usize) -> u8 { (i as u8).wrapping_mul(37).wrapping_add(11) }

/// retain predicate used by harnesses and model alike
#[inline(always)]
pub fn keep(mask: u8, key: u8) -> bool { (mask >> (key % 8)) & 1 == 1 }

/// An empty map exactly like `Map::new()`, except that the bytes of its (dead) slots are
/// solver-chosen garbage that the optimiser cannot see through and the replay reproduces
/// (DESIGN.md 4.3).  `len() == 0` is the whole representation invariant of an empty map.
pub fn empty_map<K, V, const N: usize>() -> Map<K, V, N> {
    let m: Map<K, V, N> = unsafe { vf::garbage() };
    vf::assume(m.len() == 0);
    m
}
pub fn empty_set<T, const N: usize>() -> Set<T, N> {
    let s: Set<T, N> = unsafe { vf::garbage() };
    vf::assume(s.len() == 0);
    s
}

/// Arbitrary reachable pre-state of `Map<Tok,Tok,N>`: symbolic fill level, pairwise different
/// symbolic keys, symbolic values, built through the public API only (DESIGN.md 4.3).
pub fn any_map<const N: usize>() -> (Map<Tok, Tok, N>, Model<N>) {
    let mut m: Map<Tok, Tok, N> = empty_map();
    let mut md = Model::<N>::new();
    let n = vf::any_usize();
    vf::assume(n <= N);
    let mut i = 0;
    while i < N {
        // drawn unconditionally: keeps the position of every value in the replay vector fixed
        let (k, v, t) = (vf::any_u8(), vf::any_u8(), vf::any_u8());
        if i < n {
            vf::assume(!md.has(k));
            let (kt, vt) = (Tok::tagged(k, t), Tok::new(v));
            md.insert(k, v, kt.serial(), vt.serial());
            let r = m.insert(kt, vt);
            vf::check(r.is_none(), 100);
        }
        i += 1;
    }
    (m, md)
}

/// same, constrained to a full map
pub fn full_map<const N: usize>() -> (Map<Tok, Tok, N>, Model<N>) {
    let (m, md) = any_map::<N>();
    vf::assume(md.n == N);
    (m, md)
}

/// Order-free observation of a map against the model.  The probe key is symbolic, so each
/// assertion is a statement about every key at once (DESIGN.md 4.5).
/// ids: 201 len, 202 iteration count, 203 per-key multiplicity, 204 lookup, 205 is_empty,
/// 206 len<=capacity, 207 yielded value, 208 stored key/value object identity, 904 yield of dead data
pub fn observe<const N: usize>(m: &Map<Tok, Tok, N>, md: &Model<N>) { observe_impl(m, md, true) }
/// same associations (key class -> value class), but held in other objects (a clone, a deserialised copy)
pub fn observe_copy<const N: usize>(m: &Map<Tok, Tok, N>, md: &Model<N>) { observe_impl(m, md, false) }
#[inline(always)]
fn observe_impl<const N: usize>(m: &Map<Tok, Tok, N>, md: &Model<N>, identity: bool) {
    vf::check(m.len() == md.n, 201);
    vf::check(m.is_empty() == (md.n == 0), 205);
    vf::check(m.capacity() == N && m.len() <= m.capacity(), 206);
    let q = vf::any_u8();
    let probe = BKey::free(q);
    let want = md.find(q);
    match (m.get_key_value(&probe), want) {
        (Some((k, v)), Some(i)) => {
            vf::check(k.key() == q && v.key() == md.vals[i], 204);
            if identity { vf::check(k.serial() == md.ks[i] && v.serial() == md.vs[i], 208); }
        }
        (None, None) => {}
        _ => vf::check(false, 204),
    }
    let mut cnt = 0usize;
    let mut total = 0usize;
    for (k, v) in m.iter() {
        vf::check(tok::live(k.serial()) && tok::live(v.serial()), 904);
        total += 1;
        if k.key() == q {
            cnt += 1;
            match want {
                Some(i) => {
                    vf::check(v.key() == md.vals[i], 207);
                    if identity { vf::check(v.serial() == md.vs[i] && k.serial() == md.ks[i], 208); }
                }
                None => {}
            }
        }
    }
    vf::check(total == md.n, 202);
    vf::check(cnt == want.is_some() as usize, 203);
}

/// the standing invariant of C05, stated without a model
/// ids: 211 count==len, 212 keys pairwise unequal, 213 is_empty, 214 len<=cap, 215 yielded key looks up to yielded value
pub fn well_formed<const N: usize>(m: &Map<Tok, Tok, N>) {
    vf::check(m.len() <= m.capacity() && m.capacity() == N, 214);
    vf::check(m.is_empty() == (m.len() == 0), 213);
    let q = vf::any_u8();
    let mut cnt = 0usize;
    let mut total = 0usize;
    for (k, v) in m.iter() {
        vf::check(tok::live(k.serial()) && tok::live(v.serial()), 904);
        total += 1;
        if k.key() == q {
            cnt += 1;
            match m.get(&BKey::free(q)) {
                Some(g) => vf::check(g.serial() == v.serial(), 215),
                None => vf::check(false, 215),
            }
        }
    }
    vf::check(total == m.len(), 211);
    vf::check(cnt <= 1, 212);
}

/// end of harness: drop the map, then everything created must have been destroyed exactly once
pub fn finish<const N: usize>(m: Map<Tok, Tok, N>) {
    drop(m);
    vf::check(tok::balanced(), 302);
}

pub type TSet<const N: usize> = Set<Tok, N>;

/// Arbitrary reachable pre-state of `Set<Tok,N>` (model: keys/ks only)
pub fn any_set<const N: usize>() -> (Set<Tok, N>, Model<N>) {
    let mut s: Set<Tok, N> = empty_set();
    let mut md = Model::<N>::new();
    let n = vf::any_usize();
    vf::assume(n <= N);
    let mut i = 0;
    while i < N {
        let (k, t) = (vf::any_u8(), vf::any_u8());
        if i < n {
            vf::assume(!md.has(k));
            let kt = Tok::tagged(k, t);
            md.insert(k, 0, kt.serial(), 0);
            vf::check(s.insert(kt), 100);
        }
        i += 1;
    }
    (s, md)
}

/// order-free observation of a set against the model (ids as in `observe`)
pub fn observe_set<const N: usize>(s: &Set<Tok, N>, md: &Model<N>) {
    vf::check(s.len() == md.n, 201);
    vf::check(s.is_empty() == (md.n == 0), 205);
    vf::check(s.capacity() == N && s.len() <= s.capacity(), 206);
    let q = vf::any_u8();
    let probe = BKey::free(q);
    let want = md.find(q);
    vf::check(s.contains(&probe) == want.is_some(), 204);
    match (s.get(&probe), want) {
        (Some(k), Some(i)) => { vf::check(k.key() == q, 204); vf::check(k.serial() == md.ks[i], 208); }
        (None, None) => {}
        _ => vf::check(false, 204),
    }
    let mut cnt = 0usize;
    let mut total = 0usize;
    for k in s.iter() {
        vf::check(tok::live(k.serial()), 904);
        total += 1;
        if k.key() == q {
            cnt += 1;
            if let Some(i) = want { vf::check(k.serial() == md.ks[i], 207); }
        }
    }
    vf::check(total == md.n, 202);
    vf::check(cnt == want.is_some() as usize, 203);
    // C05 for sets
    vf::check(cnt <= 1, 212);
    vf::check(total == s.len(), 211);
}

pub fn finish_set<const N: usize>(s: Set<Tok, N>) {
    drop(s);
    vf::check(tok::balanced(), 302);
}

// ------------------------------------------------------------------ plain u8 containers (no ledger: cheaper)
pub fn any_u8_set<const N: usize>() -> (Set<u8, N>, Model<N>) {
    let mut s: Set<u8, N> = empty_set();
    let mut md = Model::<N>::new();
    let n = vf::any_usize();
    vf::assume(n <= N);
    let mut i = 0;
    while i < N {
        let k = vf::any_u8();
        if i < n { vf::assume(!md.has(k)); md.insert(k, 0, 0, 0); vf::check(s.insert(k), 100); }
        i += 1;
    }
    (s, md)
}

pub fn same_u8_set<const N: usize>(s: &Set<u8, N>, md: &Model<N>) {
    vf::check(s.len() == md.n, 811);
    let q = vf::any_u8();
    vf::check(s.contains(&q) == md.has(q), 811);
    let (mut cnt, mut total) = (0usize, 0usize);
    for k in s.iter() { total += 1; if *k == q { cnt += 1; } }
    vf::check(total == md.n && cnt == md.has(q) as usize, 811);
}

pub fn any_u8_map<const N: usize>() -> (Map<u8, u8, N>, Model<N>) {
    let mut m: Map<u8, u8, N> = empty_map();
    let mut md = Model::<N>::new();
    let n = vf::any_usize();
    vf::assume(n <= N);
    let mut i = 0;
    while i < N {
        let (k, v) = (vf::any_u8(), vf::any_u8());
        if i < n { vf::assume(!md.has(k)); md.insert(k, v, 0, 0); vf::check(m.insert(k, v).is_none(), 100); }
        i += 1;
    }
    (m, md)
}

pub fn same_u8_map<const N: usize>(m: &Map<u8, u8, N>, md: &Model<N>) {
    vf::check(m.len() == md.n, 811);
    let q = vf::any_u8();
    vf::check(m.get(&q).copied() == md.get(q), 811);
    let (mut cnt, mut total) = (0usize, 0usize);
    for (k, v) in m.iter() { total += 1; if *k == q { cnt += 1; vf::check(Some(*v) == md.get(q), 811); } }
    vf::check(total == md.n && cnt == md.has(q) as usize, 811);
}


/// zero-sized key that is never equal to anything (PartialEq only): lets a container hold several zero-sized entries
#[derive(Clone, Copy)]
pub struct NE;
impl PartialEq for NE { #[inline(always)] fn eq(&self, _: &NE) -> bool { false } }
/// up to N zero-sized entries: n inserts of never-equal keys, then a retain with one solver-chosen decision per entry
pub fn zst_map<const N: usize>() -> (Map<NE, (), N>, usize) {
    let mut m: Map<NE, (), N> = empty_map();
    let n0 = vf::any_usize();
    vf::assume(n0 <= N);
    let mut i = 0;
    while i < N { if i < n0 { vf::check(m.insert(NE, ()).is_none(), 100); } i += 1; }
    let mut n = 0usize;
    m.retain(|_, _| { let keep = vf::any_bool(); if keep { n += 1; } keep });
    vf::check(m.len() == n, 201);
    (m, n)
}
pub fn zst_set<const N: usize>() -> (Set<NE, N>, usize) {
    let mut s: Set<NE, N> = empty_set();
    let n0 = vf::any_usize();
    vf::assume(n0 <= N);
    let mut i = 0;
    while i < N { if i < n0 { vf::check(s.insert(NE), 100); } i += 1; }
    let mut n = 0usize;
    s.retain(|_| { let keep = vf::any_bool(); if keep { n += 1; } keep });
    vf::check(s.len() == n, 201);
    (s, n)
}
