//! Group `g_misc`: get_disjoint_mut (C13), clone (C15), bulk construction (C16), unsafe fast paths (C18).
//! ids 1301 position differs from get_mut (value/address/None), 1302 two returned references alias, 1303 reference outside the map,
//! 1304 write through a returned reference not observed, 1305 equal+present keys did not panic, 1306 pairwise different keys panicked,
//! 1501 clone contents, 1502 clone != original, 1503 an element was not cloned exactly once, 1504 clone not independent,
//! 1601 bulk construction differs from one-by-one insertion, 1602 source not consumed exactly once front to back, 1603 overflow panic iff > N distinct keys,
//! 1801 insert_unchecked differs from insert, 1802 get_disjoint_unchecked_mut differs from get_disjoint_mut
use crate::model::*;
use crate::tok::{self, BKey, Tok};
use crate::vf;
use micromap::{Map, Set};

// ------------------------------------------------------------------------------------------ C13
pub fn c13_disjoint<const N: usize, const J: usize>() {
    let (mut m, md) = any_u8_map::<N>();
    let mut ks = [0u8; J];
    let mut i = 0;
    while i < J { ks[i] = vf::any_u8(); i += 1; }
    let (mut distinct, mut dup_present) = (true, false);
    let mut i = 0;
    while i < J {
        let mut j = 0;
        while j < i { if ks[i] == ks[j] { distinct = false; if md.has(ks[i]) { dup_present = true; } } j += 1; }
        i += 1;
    }
    // what get_mut gives for each key, as addresses
    let mut want = [0usize; J];
    let mut i = 0;
    while i < J { want[i] = m.get_mut(&ks[i]).map(|r| r as *mut u8 as usize).unwrap_or(0); i += 1; }
    let nv = vf::any_u8();
    let mut got = [0usize; J];
    let mut vals = [0u8; J];
    let base = &m as *const Map<u8, u8, N>;
    let panicked = {
        let (mm, g, vs, kk) = (&mut m, &mut got, &mut vals, &ks);
        vf::catch(move || {
            let refs: [&u8; J] = core::array::from_fn(|i| &kk[i]);
            let out = mm.get_disjoint_mut(refs);
            let mut i = 0;
            for r in out {
                if let Some(r) = r { g[i] = r as *mut u8 as usize; vs[i] = *r; vf::check(vf::ptr_within(r as *const u8, base), 1303); *r = nv ^ (i as u8); }
                i += 1;
            }
        })
    };
    if dup_present { if J >= 2 { vf::reach(3); } vf::check(panicked, 1305); }
    if distinct { vf::check(!panicked, 1306); }
    if !panicked {
        vf::reach(1);
        let mut i = 0;
        while i < J {
            vf::check(got[i] == want[i], 1301);
            if got[i] != 0 { vf::check(Some(vals[i]) == md.get(ks[i]), 1301); }
            let mut j = 0;
            while j < i { vf::check(got[i] == 0 || got[i] != got[j], 1302); j += 1; }
            if got[i] != 0 { vf::check(m.get(&ks[i]).copied() == Some(nv ^ (i as u8)), 1304); }
            i += 1;
        }
        vf::check(m.len() == md.n, 201);
    } else {
        if J >= 2 { vf::reach(2); }
        same_u8_map(&m, &md); // a panicking call changes nothing
    }
}

/// the same on ledger tokens with borrowed-form request keys, J = 2
pub fn c13_disjoint_tok<const N: usize>() {
    tok::reset();
    let (mut m, md) = any_map::<N>();
    let (k1, k2) = (vf::any_u8(), vf::any_u8());
    let (a, b) = (BKey::free(k1), BKey::free(k2));
    let w1 = m.get_mut(&a).map(|r| r as *mut Tok as usize).unwrap_or(0);
    let w2 = m.get_mut(&b).map(|r| r as *mut Tok as usize).unwrap_or(0);
    let mut got = [0usize; 2];
    let panicked = {
        let (mm, g) = (&mut m, &mut got);
        vf::catch(move || { let [x, y] = mm.get_disjoint_mut([&a, &b]); g[0] = x.map(|r| r as *mut Tok as usize).unwrap_or(0); g[1] = y.map(|r| r as *mut Tok as usize).unwrap_or(0); })
    };
    if k1 == k2 && md.has(k1) { vf::reach(3); vf::check(panicked, 1305); }
    if k1 != k2 { vf::check(!panicked, 1306); }
    if !panicked { vf::reach(1); vf::check(got[0] == w1 && got[1] == w2, 1301); vf::check(got[0] == 0 || got[0] != got[1], 1302); } else { vf::reach(2); }
    observe(&m, &md);
    finish(m);
}

/// very long request arrays (J beyond any machine-word bitmask): all keys pairwise different by construction
/// (k_i = base + i), so the call must not panic and every position must agree with get_mut
pub fn c13_disjoint_wide<const N: usize, const J: usize>() {
    let (mut m, md) = any_u8_map::<N>();
    let base = vf::any_u8();
    let ks: [u8; J] = core::array::from_fn(|i| base.wrapping_add(i as u8));
    let mut want = [0usize; J];
    let mut i = 0;
    while i < J { want[i] = m.get_mut(&ks[i]).map(|r| r as *mut u8 as usize).unwrap_or(0); i += 1; }
    let mut got = [0usize; J];
    let panicked = {
        let (mm, g, kk) = (&mut m, &mut got, &ks);
        vf::catch(move || {
            let refs: [&u8; J] = core::array::from_fn(|i| &kk[i]);
            let mut i = 0;
            for r in mm.get_disjoint_mut(refs) { g[i] = r.map(|r| r as *mut u8 as usize).unwrap_or(0); i += 1; }
        })
    };
    vf::check(!panicked, 1306);
    vf::reach(1);
    let mut i = 0;
    while i < J { vf::check(got[i] == want[i], 1301); i += 1; }
    same_u8_map(&m, &md);
}

// ------------------------------------------------------------------------------------------ C15
pub fn c15_clone<const N: usize>() {
    tok::reset();
    let (mut m, mut md) = any_map::<N>();
    let created0 = tok::created();
    let mut c = m.clone();
    vf::check(tok::created() == created0 + 2 * md.n, 1503);
    observe_copy(&c, &md);
    observe(&m, &md);
    vf::check(c == m && m == c, 1502);
    // each stored key and value was cloned exactly once, nothing else was cloned, and the clone holds the fresh objects
    let s = vf::any_u16();
    let mut stored = false;
    let mut i = 0;
    while i < N { if i < md.n && (md.ks[i] == s || md.vs[i] == s) { stored = true; } i += 1; }
    if (s as usize) < created0 { vf::check(tok::clones_of(s) == stored as u8, 1503); }
    let p = vf::any_usize();
    for (k, v) in c.iter() {
        vf::check(k.serial() as usize >= created0 && v.serial() as usize >= created0, 1503);
        if p < md.n && k.key() == md.keys[p] { vf::check(tok::cloned_from(k.serial()) == md.ks[p] && tok::cloned_from(v.serial()) == md.vs[p], 1503); }
    }
    if md.n > 0 { vf::reach(1); } else { vf::reach(2); }
    // independence: mutate or destroy one copy, the other keeps exactly its entries
    let which = vf::any_u8();
    let k = vf::any_u8();
    vf::assume(which < 5);
    let mut cmd = md;
    match which {
        0 => { vf::assume(md.n < N || md.has(k)); let (kt, vt) = (Tok::new(k), Tok::new(1)); cmd.insert(k, 1, kt.serial(), vt.serial()); drop(c.insert(kt, vt)); observe(&m, &md); observe_copy(&c, &cmd); }
        1 => { drop(c.remove(&BKey::free(k))); cmd.remove(k); observe(&m, &md); observe_copy(&c, &cmd); }
        2 => { drop(m.remove(&BKey::free(k))); md.remove(k); observe(&m, &md); observe_copy(&c, &cmd); }
        3 => { m.clear(); md.clear(); observe(&m, &md); observe_copy(&c, &cmd); }
        _ => { for v in c.values_mut() { v.set_tag(0x66); } for v in m.values() { vf::check(v.tag() != 0x66, 1504); } }
    }
    // destruction of either leaves the other intact
    if vf::any_bool() { drop(c); observe(&m, &md); drop(m); } else { drop(m); observe_copy(&c, &cmd); drop(c); }
    vf::check(tok::balanced(), 302);
}

/// Clone::clone_from (an implementation may override it to reuse the destination): afterwards the destination holds
/// exactly the source's entries, whatever it held before (longer, shorter, overlapping); nothing is destroyed twice or leaked
pub fn c15_clone_from<const N: usize>() {
    tok::reset();
    let (src, smd) = any_map::<N>();
    let (mut dst, _dmd) = any_map::<N>();
    dst.clone_from(&src);
    observe_copy(&dst, &smd);
    observe(&src, &smd);
    vf::check(dst == src && src == dst, 1502);
    well_formed(&dst);
    if _dmd.n > smd.n { vf::reach(1); } else { vf::reach(2); }
    // independence afterwards
    drop(src);
    observe_copy(&dst, &smd);
    drop(dst);
    vf::check(tok::balanced(), 302);
    // sets
    let (ssrc, ssmd) = any_set::<N>();
    let (mut sdst, _) = any_set::<N>();
    sdst.clone_from(&ssrc);
    vf::check(sdst == ssrc && sdst.len() == ssmd.n, 1502);
    let q = vf::any_u8();
    vf::check(sdst.contains(&BKey::free(q)) == ssmd.has(q), 1501);
    drop(ssrc);
    drop(sdst);
    vf::check(tok::balanced(), 302);
}

pub fn c15_set_clone<const N: usize>() {
    tok::reset();
    let (mut s, md) = any_set::<N>();
    let created0 = tok::created();
    let c = s.clone();
    vf::check(tok::created() == created0 + md.n, 1503);
    vf::check(c == s && s == c && c.len() == md.n, 1502);
    let p = vf::any_usize();
    for k in c.iter() {
        vf::check(k.serial() as usize >= created0, 1503);
        if p < md.n && k.key() == md.keys[p] { vf::check(tok::cloned_from(k.serial()) == md.ks[p] && tok::clones_of(md.ks[p]) == 1, 1503); }
    }
    if md.n > 0 { vf::reach(1); } else { vf::reach(2); }
    s.clear();
    vf::check(c.len() == md.n, 1504);
    let q = vf::any_u8();
    vf::check(c.contains(&BKey::free(q)) == md.has(q), 1504);
    drop(s);
    for k in c.iter() { vf::check(tok::live(k.serial()), 904); }
    drop(c);
    vf::check(tok::balanced(), 302);
}

/// clone of a container of zero-sized entries: as many entries as the original, one Clone call per key, the original untouched
pub static mut ZCLONES: usize = 0;
pub struct ZK;
impl PartialEq for ZK { #[inline(always)] fn eq(&self, _: &ZK) -> bool { false } }
impl Clone for ZK { #[inline(always)] fn clone(&self) -> ZK { unsafe { ZCLONES += 1; } ZK } }
pub fn c15_zst<const N: usize>() {
    unsafe { ZCLONES = 0; }
    let mut m: Map<ZK, (), N> = empty_map();
    let mut s: Set<ZK, N> = empty_set();
    let (n0, drop_one) = (vf::any_usize(), vf::any_bool());
    vf::assume(n0 <= N);
    let mut i = 0;
    while i < N { if i < n0 { vf::check(m.insert(ZK, ()).is_none() && s.insert(ZK), 100); } i += 1; }
    let mut first = drop_one;
    m.retain(|_, _| { let k = !first; first = false; k });
    let n = if drop_one && n0 > 0 { n0 - 1 } else { n0 };
    vf::check(m.len() == n && s.len() == n0, 201);
    let c = m.clone();
    vf::check(unsafe { ZCLONES } == n, 1503);
    let sc = s.clone();
    vf::check(unsafe { ZCLONES } == n + n0, 1503);
    vf::check(c.len() == n && sc.len() == n0 && c.capacity() == N, 1501);
    let (mut t, mut ts) = (0usize, 0usize);
    for _ in c.iter() { t += 1; }
    for _ in sc.iter() { ts += 1; }
    vf::check(t == n && ts == n0, 1501);
    if n0 > 0 { vf::reach(1); } else { vf::reach(2); }
    // independence: emptying the clone leaves the original alone and vice versa
    let mut c = c;
    c.clear();
    vf::check(m.len() == n && c.is_empty(), 1504);
    drop(m);
    vf::check(sc.len() == n0, 1504);
    let mut c2 = sc.clone();
    c2.clone_from(&s);
    vf::check(c2.len() == n0, 1501);
    // a ZERO-SIZED value type next to ordinary keys: "carries no data" does not mean "needs no clone()" -- a zero-sized permit or
    // token counts its clones and its destructions like any other value
    unsafe { ZVCLONES = 0; ZVDROPS = 0; }
    let mut z: Map<u8, ZV, N> = empty_map();
    let mut i = 0;
    while i < N { if i < n0 { vf::check(z.insert(i as u8, ZV).is_none(), 100); } i += 1; }
    let zc = z.clone();
    vf::check(unsafe { ZVCLONES } == n0 && unsafe { ZVDROPS } == 0, 1503);
    vf::check(zc.len() == n0 && zc == z, 1501);
    drop(zc);
    vf::check(unsafe { ZVDROPS } == n0 && z.len() == n0, 1504);
    drop(z);
    vf::check(unsafe { ZVDROPS } == 2 * n0 && unsafe { ZVCLONES } == n0, 1504);
}
pub static mut ZVCLONES: usize = 0;
pub static mut ZVDROPS: usize = 0;
/// zero-sized value with an observable Clone and Drop
#[derive(PartialEq)]
pub struct ZV;
impl Clone for ZV { #[inline(never)] fn clone(&self) -> ZV { unsafe { ZVCLONES += 1; } ZV } }
impl Drop for ZV { #[inline(never)] fn drop(&mut self) { unsafe { ZVDROPS += 1; } } }

/// clone of a container whose element type has NO drop glue but an observable Clone: still one clone per element
pub fn c15_clone_nodrop<const N: usize>() {
    use crate::tok::CTok;
    unsafe { tok::CCLONES = 0; }
    let mut m: Map<CTok, CTok, N> = empty_map();
    let mut s: Set<CTok, N> = empty_set();
    let mut md = Model::<N>::new();
    let n = vf::any_usize();
    vf::assume(n <= N);
    let mut i = 0;
    while i < N {
        let (k, v) = (vf::any_u8(), vf::any_u8());
        if i < n { vf::assume(!md.has(k)); md.insert(k, v, 0, 0); m.insert(CTok::new(k), CTok::new(v)); s.insert(CTok::new(k)); }
        i += 1;
    }
    let c = m.clone();
    vf::check(unsafe { tok::CCLONES } == 2 * n, 1503);
    let sc = s.clone();
    vf::check(unsafe { tok::CCLONES } == 3 * n, 1503);
    vf::check(c.len() == n && sc.len() == n, 1501);
    let q = vf::any_u8();
    match (c.get_key_value(&CTok::new(q)), md.get(q)) {
        (Some((k, v)), Some(want)) => { vf::reach(1); vf::check(k.gen == 1 && v.gen == 1 && v.key == want, 1503); }
        (None, None) => { vf::reach(2); }
        _ => vf::check(false, 1501),
    }
    match sc.get(&CTok::new(q)) { Some(k) => vf::check(k.gen == 1 && md.has(q), 1503), None => vf::check(!md.has(q), 1501) }
    for (k, v) in m.iter() { vf::check(k.gen == 0 && v.gen == 0, 1504); }
    for k in s.iter() { vf::check(k.gen == 0, 1504); }
    vf::check(c == m && sc == s, 1502);
}

/// C06: a container whose VALUE is larger than 4 KiB (size thresholds): construction, insertion, lookup, clone, equality and
/// removal make no allocator call (run with micromap's `std` feature off and on)
pub fn c06_big<const N: usize>() {
    type Big = [u64; 200];
    let mut m: Map<u8, Big, N> = Map::new(); // no garbage fill: 4.8 KB of logged bytes would serve no purpose here
    let k = vf::any_u8();
    if vf::any_bool() { let mut b = [0u64; 200]; b[0] = k as u64; vf::check(m.insert(k, b).is_none(), 100); vf::reach(1); } else { vf::reach(2); }
    vf::check(core::mem::size_of::<Map<u8, Big, N>>() > 4096 || N < 3, 206);
    let c = m.clone();
    vf::check(c.len() == m.len(), 1502);
    if let Some(a) = c.get(&k) { vf::check(a[0] == k as u64, 1501); }
}

// ------------------------------------------------------------------------------------------ C16
/// source of (key, value) pairs that records how it is consumed
pub struct PairSrc<const L: usize> { pub items: [Option<(Tok, Tok)>; L], pub pos: usize, pub len: usize, pub pulled: usize, pub slack_lo: usize, pub slack_hi: Option<usize> }
impl<const L: usize> Iterator for PairSrc<L> {
    type Item = (Tok, Tok);
    fn next(&mut self) -> Option<(Tok, Tok)> {
        self.pulled += 1;
        if self.pos < self.len && self.pos < L { let i = self.pos; self.pos += 1; self.items[i].take() } else { None }
    }
    /// any size_hint the Iterator contract allows: lower <= remaining <= upper (or no upper bound); the slack is solver-chosen
    fn size_hint(&self) -> (usize, Option<usize>) {
        let rem = self.len - self.pos;
        (rem.saturating_sub(self.slack_lo), self.slack_hi.map(|s| rem.saturating_add(s)))
    }
}

/// collect() of a symbolic sequence with arbitrary repetition == inserting one by one (first key object kept, last value wins);
/// panics iff the sequence holds more than N distinct keys, having pulled exactly up to the overflowing item
pub fn c16_from_iter<const N: usize, const L: usize>() {
    tok::reset();
    let len = vf::any_usize();
    vf::assume(len <= L);
    let mut md = Model::<N>::new();
    let mut src = PairSrc::<L> { items: [const { None }; L], pos: 0, len, pulled: 0, slack_lo: vf::any_usize(), slack_hi: if vf::any_bool() { Some(vf::any_usize()) } else { None } };
    let mut overflow_at = usize::MAX; // index of the first item that does not fit
    let mut i = 0;
    while i < L {
        let (k, v) = (vf::any_u8(), vf::any_u8());
        if i < len {
            let (kt, vt) = (Tok::tagged(k, i as u8), Tok::new(v));
            if overflow_at == usize::MAX {
                if md.n == N && !md.has(k) { overflow_at = i; } else { md.insert(k, v, kt.serial(), vt.serial()); }
            }
            src.items[i] = Some((kt, vt));
        }
        i += 1;
    }
    if !vf::CAN_CATCH { vf::assume(overflow_at == usize::MAX); }
    let mut out: Option<Map<Tok, Tok, N>> = None;
    let panicked = { let (o, s) = (&mut out, &mut src); vf::catch(move || { *o = Some(s.collect()); }) };
    if overflow_at == usize::MAX {
        vf::reach(1);
        vf::check(!panicked, 1603);
        vf::check(src.pulled == len || src.pulled == len + 1, 1602); // every item once; the terminating None may or may not be pulled
        match out.as_ref() { Some(m) => { observe(m, &md); well_formed(m); } None => vf::check(false, 1601) }
    } else {
        vf::reach(2);
        vf::check(panicked, 1603);
        // The property does not say how far the source has been read when the overflow panic is raised, only that it is read front to
        // back, every item once: an implementation that looks ONE item ahead (e.g. through `Peekable`) before it inserts is tolerated;
        // reading further past the item that does not fit means that items are buffered or the source is drained, which is not
        // "inserting the items one by one"
        vf::check(src.pulled <= overflow_at + 2, 1602);
    }
    drop(out);
    drop(src);
    vf::check(tok::balanced(), 302);
}

/// From<[(K,V); N]> == inserting the array items in order
pub fn c16_from_array<const N: usize>() {
    tok::reset();
    let mut md = Model::<N>::new();
    let mut ks = [0u8; N];
    let mut vs = [0u8; N];
    let mut i = 0;
    while i < N { ks[i] = vf::any_u8(); vs[i] = vf::any_u8(); i += 1; }
    let arr: [(Tok, Tok); N] = core::array::from_fn(|i| {
        let (kt, vt) = (Tok::tagged(ks[i], i as u8), Tok::new(vs[i]));
        md.insert(ks[i], vs[i], kt.serial(), vt.serial());
        (kt, vt)
    });
    let m: Map<Tok, Tok, N> = Map::from(arr);
    if md.n < N { if N >= 2 { vf::reach(1); } } else { vf::reach(2); }
    observe(&m, &md);
    well_formed(&m);
    finish(m);
}

/// Set: collect / From<[T;N]>
pub fn c16_set_from<const N: usize, const L: usize>() {
    tok::reset();
    let len = vf::any_usize();
    vf::assume(len <= L);
    let mut md = Model::<N>::new();
    let mut src = crate::g_misc::KeySrc::<L> { items: [const { None }; L], pos: 0, len, pulled: 0, slack_lo: vf::any_usize(), slack_hi: if vf::any_bool() { Some(vf::any_usize()) } else { None } };
    let mut i = 0;
    while i < L {
        let k = vf::any_u8();
        if i < len { let kt = Tok::tagged(k, i as u8); vf::assume(md.n < N || md.has(k)); md.insert(k, 0, kt.serial(), 0); src.items[i] = Some(kt); }
        i += 1;
    }
    let s: Set<Tok, N> = (&mut src).collect();
    vf::check(src.pulled == len || src.pulled == len + 1, 1602);
    if md.n < len { vf::reach(1); } else { vf::reach(2); }
    observe_set(&s, &md);
    drop(src);
    finish_set(s);
}
pub struct KeySrc<const L: usize> { pub items: [Option<Tok>; L], pub pos: usize, pub len: usize, pub pulled: usize, pub slack_lo: usize, pub slack_hi: Option<usize> }
impl<const L: usize> Iterator for KeySrc<L> {
    type Item = Tok;
    fn next(&mut self) -> Option<Tok> {
        self.pulled += 1;
        if self.pos < self.len && self.pos < L { let i = self.pos; self.pos += 1; self.items[i].take() } else { None }
    }
    fn size_hint(&self) -> (usize, Option<usize>) {
        let rem = self.len - self.pos;
        (rem.saturating_sub(self.slack_lo), self.slack_hi.map(|s| rem.saturating_add(s)))
    }
}
pub fn c16_set_from_array<const N: usize>() {
    tok::reset();
    let mut md = Model::<N>::new();
    let mut ks = [0u8; N];
    let mut i = 0;
    while i < N { ks[i] = vf::any_u8(); i += 1; }
    let arr: [Tok; N] = core::array::from_fn(|i| { let kt = Tok::tagged(ks[i], i as u8); md.insert(ks[i], 0, kt.serial(), 0); kt });
    let s: Set<Tok, N> = Set::from(arr);
    if md.n < N { if N >= 2 { vf::reach(1); } } else { vf::reach(2); }
    observe_set(&s, &md);
    finish_set(s);
}

// ------------------------------------------------------------------------------------------ C18
/// insert_unchecked == insert whenever the map is not full or the key is present
pub fn c18_insert_unchecked<const N: usize>() {
    tok::reset();
    let (mut m, mut md) = any_map::<N>();
    let (k, v) = (vf::any_u8(), vf::any_u8());
    vf::assume(md.n < N || md.has(k)); // the documented precondition
    let (kt, vt) = (Tok::tagged(k, 1), Tok::new(v));
    let (ks, vs) = (kt.serial(), vt.serial());
    let r = unsafe { m.insert_unchecked(kt, vt) };
    let e = md.insert(k, v, ks, vs);
    match (&r, e) {
        (Some(o), Some((ev, evs))) => { vf::reach(1); vf::check(o.key() == ev && o.serial() == evs && tok::live(evs), 1801); vf::check(tok::dead(ks), 1801); }
        (None, None) => { vf::reach(2); vf::check(tok::live(ks), 1801); }
        _ => vf::check(false, 1801),
    }
    observe(&m, &md);
    well_formed(&m);
    drop(r);
    finish(m);
}

/// get_disjoint_unchecked_mut == get_disjoint_mut for pairwise different keys
pub fn c18_disjoint_unchecked<const N: usize, const J: usize>() {
    let (mut m, md) = any_u8_map::<N>();
    let mut ks = [0u8; J];
    let mut i = 0;
    while i < J { ks[i] = vf::any_u8(); let mut j = 0; while j < i { vf::assume(ks[j] != ks[i]); j += 1; } i += 1; }
    let mut safe = [0usize; J];
    let mut fast = [0usize; J];
    {
        let refs: [&u8; J] = core::array::from_fn(|i| &ks[i]);
        let mut i = 0;
        for r in m.get_disjoint_mut(refs) { safe[i] = r.map(|r| r as *mut u8 as usize).unwrap_or(0); i += 1; }
    }
    {
        let refs: [&u8; J] = core::array::from_fn(|i| &ks[i]);
        let base = &m as *const Map<u8, u8, N>;
        let mut i = 0;
        for r in unsafe { m.get_disjoint_unchecked_mut(refs) } {
            if let Some(r) = r { vf::check(vf::ptr_within(r as *const u8, base), 1303); vf::check(Some(*r) == md.get(ks[i]), 1802); fast[i] = r as *mut u8 as usize; }
            i += 1;
        }
    }
    let mut i = 0;
    while i < J {
        vf::check(safe[i] == fast[i], 1802);
        vf::check((fast[i] != 0) == md.has(ks[i]), 1802);
        let mut j = 0;
        while j < i { vf::check(fast[i] == 0 || fast[i] != fast[j], 1302); j += 1; }
        i += 1;
    }
    vf::reach(1);
    same_u8_map(&m, &md);
}

harnesses! {
    c15_zst: [1] [2] [3];
    c13_disjoint: [0, 0] [2, 0] [0, 2] [1, 1] [2, 1] [1, 2] [2, 2] [3, 2] [2, 3] [3, 3] [2, 9];
    c13_disjoint_tok: [1] [2] [3];
    c15_clone: [0] [1] [2] [3];
    c15_set_clone: [0] [1] [2] [3];
    c15_clone_nodrop: [1] [2] [3];
    c15_clone_from: [1] [2] [3];
    c06_big: [3];
    c16_from_iter: [0, 1] [1, 2] [2, 3] [3, 4] [2, 4];
    c16_from_array: [0] [1] [2] [3] [4];
    c16_set_from: [1, 2] [2, 3] [3, 4];
    c16_set_from_array: [0] [1] [2] [3] [4];
    c18_insert_unchecked: [1] [2] [3] [4];
    c18_disjoint_unchecked: [2, 0] [1, 1] [2, 2] [3, 2] [2, 3] [3, 3];
    @deep
    c13_disjoint: [4, 3] [3, 4] [4, 4] [5, 2] [2, 17];
    c13_disjoint_tok: [4] [5];
    c15_clone: [4] [5];
    c15_set_clone: [4] [5];
    c15_clone_nodrop: [4] [5];
    c15_clone_from: [4];
    c16_from_iter: [3, 5] [4, 5];
    c16_from_array: [5];
    c16_set_from: [4, 5];
    c16_set_from_array: [5];
    c18_insert_unchecked: [5];
    c18_disjoint_unchecked: [4, 3] [3, 4] [4, 4];
}
