//! Group `g_liar`: misbehaving Eq/Borrow (C17).  With `tok::LIAR` set, EVERY comparison of keys (by key or by
//! borrowed form) returns a fresh symbolic boolean: non-reflexive, asymmetric, changing between calls.
//! Wrong answers are not asserted.  Asserted: no pointer/bounds/UB check fails, the canaries around the
//! container stay intact, len() <= capacity() and equals what iteration yields, only live objects are yielded,
//! mutable references handed out together are pairwise different, a panic leaves a droppable container, and
//! after dropping everything the ledger balances (every element destroyed exactly once).
//! ids 1701 len() > capacity(), 1702 iteration count != len(), 1703 aliasing mutable references, 1704 canary overwritten
use crate::tok::{self, BKey, Tok};
use crate::vf;
use micromap::{Entry, Map, Set};

const LO: u64 = 0xA5A5_A5A5_A5A5_A5A5;
const HI: u64 = 0x5A5A_5A5A_5A5A_5A5A;
#[repr(C)]
pub struct Guarded<T> { lo: [u64; 2], pub c: T, hi: [u64; 2] }

/// any state reachable under adversarial comparisons: up to N checked_inserts of symbolic keys (duplicates included)
fn liar_map<const N: usize>() -> Guarded<Map<Tok, Tok, N>> {
    let mut g: Guarded<Map<Tok, Tok, N>> = unsafe { vf::garbage() };
    vf::assume(g.c.len() == 0);
    g.lo = [LO; 2];
    g.hi = [HI; 2];
    unsafe { tok::LIAR = true; }
    let n = vf::any_usize();
    vf::assume(n <= N);
    let mut i = 0;
    while i < N {
        let k = vf::any_u8();
        if i < n { drop(g.c.checked_insert(Tok::new(k), Tok::new(i as u8))); }
        i += 1;
    }
    g
}
fn liar_set<const N: usize>() -> Guarded<Set<Tok, N>> {
    let mut g: Guarded<Set<Tok, N>> = unsafe { vf::garbage() };
    vf::assume(g.c.len() == 0);
    g.lo = [LO; 2];
    g.hi = [HI; 2];
    unsafe { tok::LIAR = true; }
    let n = vf::any_usize();
    vf::assume(n <= N);
    let mut i = 0;
    while i < N {
        let k = vf::any_u8();
        // the set has no checked insert: insert only while there is room (a lying "equal" answer replaces nothing)
        if i < n && g.c.len() < N { let _ = g.c.insert(Tok::new(k)); }
        i += 1;
    }
    g
}

fn sane<const N: usize>(g: &Guarded<Map<Tok, Tok, N>>) {
    vf::check(g.lo == [LO; 2] && g.hi == [HI; 2], 1704);
    vf::check(g.c.len() <= N && g.c.capacity() == N, 1701);
    vf::check(g.c.is_empty() == (g.c.len() == 0), 1701);
    let mut total = 0usize;
    for (k, v) in g.c.iter() { vf::check(tok::live(k.serial()) && tok::live(v.serial()), 904); total += 1; }
    vf::check(total == g.c.len(), 1702);
}
fn sane_set<const N: usize>(g: &Guarded<Set<Tok, N>>) {
    vf::check(g.lo == [LO; 2] && g.hi == [HI; 2], 1704);
    vf::check(g.c.len() <= N && g.c.capacity() == N, 1701);
    let mut total = 0usize;
    for k in g.c.iter() { vf::check(tok::live(k.serial()), 904); total += 1; }
    vf::check(total == g.c.len(), 1702);
}
fn end<const N: usize>(g: Guarded<Map<Tok, Tok, N>>, panicked: bool) {
    if panicked { vf::reach(1); } else { vf::reach(2); }
    sane(&g);
    drop(g);
    vf::check(tok::balanced(), 302);
}

/// insert / insert_key_value / checked_insert / entry().or_insert / VacantEntry::insert (may panic on a full map)
pub fn c17_insert<const N: usize>() {
    tok::reset();
    let mut g = liar_map::<N>();
    let (k, which) = (vf::any_u8(), vf::any_u8());
    vf::assume(which < 7);
    let base = &g.c as *const Map<Tok, Tok, N>;
    let panicked = {
        let m = &mut g.c;
        vf::catch(move || {
            let (kt, vt) = (Tok::new(k), Tok::new(0x11));
            // every reference the entry API hands out must be a live value inside the container
            let good = |r: &mut Tok| { vf::check(tok::live(r.serial()) && vf::ptr_within(r as *const Tok, base), 904); r.set_tag(0x21); };
            match which {
                0 => drop(m.insert(kt, vt)),
                1 => drop(m.insert_key_value(kt, vt)),
                2 => drop(m.checked_insert(kt, vt)),
                3 => { good(m.entry(kt).or_insert(vt)); }
                4 => { good(m.entry(kt).or_insert_with(|| vt)); }
                5 => { drop(vt); good(m.entry(kt).or_default()); }
                _ => { match m.entry(kt) { Entry::Vacant(e) => { good(e.insert(vt)); } Entry::Occupied(mut o) => { good(o.get_mut()); drop(o.insert(vt)); drop(o.remove_entry()); } } }
            }
        })
    };
    end(g, panicked);
}

/// remove / remove_entry / retain / clear / drain (partial)
pub fn c17_remove<const N: usize>() {
    tok::reset();
    let mut g = liar_map::<N>();
    let (k, which, mask, j) = (vf::any_u8(), vf::any_u8(), vf::any_u8(), vf::any_usize());
    vf::assume(which < 5);
    let panicked = {
        let m = &mut g.c;
        vf::catch(move || {
            match which {
                0 => drop(m.remove(&BKey::free(k))),
                1 => drop(m.remove_entry(&Tok::new(k))),
                2 => m.retain(|kk, _| crate::model::keep(mask, kk.key())),
                3 => m.clear(),
                _ => { let mut d = m.drain(); let mut i = 0; while i < N { if i < j { drop(d.next()); } i += 1; } }
            }
        })
    };
    vf::check(!panicked, 1705); // none of these can legitimately panic
    vf::reach(2);
    sane(&g);
    drop(g);
    vf::check(tok::balanced(), 302);
}

/// lookups, Index, ==, clone under lying comparisons
pub fn c17_lookup<const N: usize>() {
    tok::reset();
    let mut g = liar_map::<N>();
    let (k, which) = (vf::any_u8(), vf::any_u8());
    vf::assume(which < 7);
    let base = &g.c as *const Map<Tok, Tok, N>;
    let panicked = {
        let m = &mut g.c;
        vf::catch(move || {
            let q = BKey::free(k);
            match which {
                0 => { if let Some(v) = m.get(&q) { vf::check(tok::live(v.serial()) && vf::ptr_within(v as *const Tok, base), 904); } }
                1 => { if let Some(v) = m.get_mut(&q) { vf::check(tok::live(v.serial()) && vf::ptr_within(v as *const Tok, base), 904); v.set_tag(1); } }
                2 => { if let Some((a, b)) = m.get_key_value(&q) { vf::check(tok::live(a.serial()) && tok::live(b.serial()), 904); } }
                3 => { let _ = m.contains_key(&q); }
                4 => { let v = &m[&q]; vf::check(tok::live(v.serial()), 904); }
                5 => { let _ = *m == *m; }
                _ => { let c = m.clone(); let mut t = 0; for (a, b) in c.iter() { vf::check(tok::live(a.serial()) && tok::live(b.serial()), 904); t += 1; } vf::check(t == c.len() && c.len() == m.len(), 1702); }
            }
        })
    };
    end(g, panicked);
}

/// get_disjoint_mut with J = 2 and 3 request keys: references handed out together never alias
pub fn c17_disjoint<const N: usize, const J: usize>() {
    tok::reset();
    let mut g = liar_map::<N>();
    let mut ks = [0u8; J];
    let mut i = 0;
    while i < J { ks[i] = vf::any_u8(); i += 1; }
    let base = &g.c as *const Map<Tok, Tok, N>;
    let panicked = {
        let m = &mut g.c;
        vf::catch(move || {
            let qs: [BKey; J] = core::array::from_fn(|i| BKey::free(ks[i]));
            let refs: [&BKey; J] = core::array::from_fn(|i| &qs[i]);
            let out = m.get_disjoint_mut(refs);
            let mut addr = [0usize; J];
            let mut i = 0;
            for r in out {
                if let Some(r) = r {
                    vf::check(tok::live(r.serial()) && vf::ptr_within(r as *const Tok, base), 904);
                    r.set_tag(i as u8);
                    addr[i] = r as *mut Tok as usize;
                }
                i += 1;
            }
            let mut i = 0;
            while i < J { let mut j = 0; while j < i { vf::check(addr[i] == 0 || addr[i] != addr[j], 1703); j += 1; } i += 1; }
        })
    };
    end(g, panicked);
}

fn liar_op<const N: usize>(m: &mut Map<Tok, Tok, N>, op: u8, k: u8, mask: u8) {
    match op {
        0 => drop(m.insert(Tok::new(k), Tok::new(1))),
        1 => drop(m.insert_key_value(Tok::new(k), Tok::new(2))),
        2 => drop(m.checked_insert(Tok::new(k), Tok::new(3))),
        3 => drop(m.remove(&BKey::free(k))),
        4 => m.retain(|kk, _| crate::model::keep(mask, kk.key())),
        5 => { let _ = m.entry(Tok::new(k)).or_insert(Tok::new(4)); }
        _ => { if let Some(v) = m.get_mut(&BKey::free(k)) { v.set_tag(9); } }
    }
}

/// two solver-chosen operations in sequence under adversarial comparisons (each may panic and is caught)
pub fn c17_two<const N: usize>() {
    tok::reset();
    let mut g = liar_map::<N>();
    let (o1, o2, k1, k2, mask) = (vf::any_u8(), vf::any_u8(), vf::any_u8(), vf::any_u8(), vf::any_u8());
    vf::assume(o1 < 7 && o2 < 7);
    let p1 = { let m = &mut g.c; vf::catch(move || liar_op(m, o1, k1, mask)) };
    sane(&g);
    let p2 = { let m = &mut g.c; vf::catch(move || liar_op(m, o2, k2, mask)) };
    if p1 || p2 { vf::reach(1); } else { vf::reach(2); }
    sane(&g);
    drop(g);
    vf::check(tok::balanced(), 302);
}

/// Set operations and predicates under lying comparisons
pub fn c17_set<const N: usize, const M: usize>() {
    tok::reset();
    let mut a = liar_set::<N>();
    let b = liar_set::<M>();
    let (k, which) = (vf::any_u8(), vf::any_u8());
    vf::assume(which < 8);
    let panicked = {
        let (sa, sb) = (&mut a.c, &b.c);
        vf::catch(move || {
            match which {
                0 => { let _ = sa.insert(Tok::new(k)); }
                1 => { drop(sa.replace(Tok::new(k))); }
                2 => { let _ = sa.remove(&BKey::free(k)); drop(sa.take(&BKey::free(k))); }
                3 => { let _ = sa.is_subset(sb) | sa.is_superset(sb) | sa.is_disjoint(sb); }
                4 => { let mut t = 0; for x in sa.union(sb) { vf::check(tok::live(x.serial()), 904); t += 1; } vf::check(t <= N + M, 1702); }
                5 => { for x in sa.symmetric_difference(sb) { vf::check(tok::live(x.serial()), 904); } for x in sa.intersection(sb) { vf::check(tok::live(x.serial()), 904); } }
                6 => { let d = &*sa - sb; vf::check(d.len() <= N, 1701); for x in d.iter() { vf::check(tok::live(x.serial()), 904); } }
                _ => { let _ = *sa == *sb; if let Some(x) = sa.get(&BKey::free(k)) { vf::check(tok::live(x.serial()), 904); } }
            }
        })
    };
    if panicked { vf::reach(1); } else { vf::reach(2); }
    sane_set(&a);
    sane_set(&b);
    drop(a);
    drop(b);
    vf::check(tok::balanced(), 302);
}

/// collecting a lazy set-algebra iterator into a SMALL set: under a lying Eq the iterator may yield more than its size_hint
/// promised; the collection may panic, but must never hold more than its capacity or write outside itself
pub fn c17_collect<const N: usize, const M: usize, const OP: u8>() {
    tok::reset();
    let a = liar_set::<N>();
    let b = liar_set::<M>();
    let which = OP; // one iterator kind per obligation
    let panicked = {
        let (sa, sb) = (&a.c, &b.c);
        vf::catch(move || {
            let mut g: Guarded<Set<Tok, 1>> = unsafe { vf::garbage() };
            vf::assume(g.c.len() == 0);
            g.lo = [LO; 2];
            g.hi = [HI; 2];
            match which {
                0 => { g.c = sa.intersection(sb).cloned().collect(); }
                1 => { g.c = sa.union(sb).cloned().collect(); }
                2 => { g.c = sa.difference(sb).cloned().collect(); }
                _ => { g.c = sa.symmetric_difference(sb).cloned().collect(); }
            }
            sane_set(&g);
        })
    };
    if panicked { vf::reach(1); } else { vf::reach(2); }
    sane_set(&a);
    sane_set(&b);
    drop(a);
    drop(b);
    vf::check(tok::no_excess(), 301); // a panicking collect may leak what it had cloned; nothing may die twice
}

/// the bulk constructors and Extend under lying comparisons: From<[_; N]> for Map and Set, collect(), extend()
/// (0 Map::from(array) 1 Set::from(array) 2 collect into a Map 3 Set::extend of a non-empty set, may overflow and panic)
pub fn c17_build<const N: usize, const OP: u8>() {
    tok::reset();
    let mut ks = [0u8; N];
    let mut i = 0;
    while i < N { ks[i] = vf::any_u8(); i += 1; }
    let mut gm: Guarded<Map<Tok, Tok, N>> = unsafe { vf::garbage() };
    vf::assume(gm.c.len() == 0);
    gm.lo = [LO; 2];
    gm.hi = [HI; 2];
    let mut gs = liar_set::<N>(); // sets LIAR
    let panicked = {
        let (m, s) = (&mut gm.c, &mut gs.c);
        vf::catch(move || {
            match OP {
                0 => { let arr: [(Tok, Tok); N] = core::array::from_fn(|i| (Tok::tagged(ks[i], i as u8), Tok::new(i as u8))); *m = Map::from(arr); }
                1 => { let arr: [Tok; N] = core::array::from_fn(|i| Tok::tagged(ks[i], i as u8)); *s = Set::from(arr); }
                2 => { let arr: [(Tok, Tok); N] = core::array::from_fn(|i| (Tok::tagged(ks[i], i as u8), Tok::new(i as u8))); *m = arr.into_iter().collect(); }
                _ => { let arr: [Tok; N] = core::array::from_fn(|i| Tok::tagged(ks[i], i as u8)); s.extend(arr); }
            }
        })
    };
    if panicked { if OP == 3 { vf::reach(1); } } else { vf::reach(2); }
    sane(&gm);
    sane_set(&gs);
    drop(gm);
    drop(gs);
    vf::check(tok::no_excess(), 301);
    if !panicked { vf::check(tok::balanced(), 302); }
}

harnesses! {
    c17_build: [2, 0] [2, 1] [2, 2] [2, 3] [3, 0] [3, 1] [3, 2] [3, 3];
    c17_collect: [2, 1, 0] [2, 1, 1];
    c17_insert: [0] [1] [2] [3];
    c17_remove: [1] [2] [3];
    c17_lookup: [1] [2] [3];
    c17_disjoint: [1, 2] [2, 2] [3, 2] [2, 3] [3, 3];
    c17_set: [1, 1] [2, 1] [1, 2];
    @deep
    c17_build: [4, 0] [4, 1] [4, 2] [4, 3];
    c17_collect: [2, 1, 2] [2, 1, 3] [2, 2, 0] [3, 1, 0];
    c17_two: [1] [2] [3];
    c17_insert: [4];
    c17_remove: [4];
    c17_lookup: [4];
    c17_disjoint: [4, 3] [4, 4];
    c17_set: [2, 2] [3, 2];
}
