//! Group `g_iter`: borrowing iterators (C09), consuming iterators and drain (C10, C02).
//! ids 601 len(), 602 size_hint(), 603 more items than capacity, 604 total count, 605 a stored entry not yielded exactly once,
//! 606 not fused, 607 second traversal differs, 608 clone diverges, 609 count(), 610 write-through lost,
//! 611 yielded pair is not a stored association, 612 drained container not empty, 613 container not reusable after drain,
//! 614 remaining elements not released when the iterator is dropped
use crate::model::*;
use crate::tok::{self, Tok, FREE};
use crate::vf;
use micromap::{Map, Set};

/// full traversal with per-step protocol checks; returns the yielded serial sequence
macro_rules! walk {
    ($mk:expr, $ser:expr, $expect:expr, $n:expr, $N:expr) => {{
        let n: usize = $n;
        let p = vf::any_usize(); // symbolic index of a model entry: "every entry exactly once"
        let mut seq = [FREE; $N];
        let mut it = $mk;
        let mut i = 0usize;
        let mut hits = 0usize;
        loop {
            vf::check(it.len() == n.wrapping_sub(i), 601);
            vf::check(it.size_hint() == (n.wrapping_sub(i), Some(n.wrapping_sub(i))), 602);
            match it.next() {
                Some(x) => {
                    let s: u16 = $ser(&x);
                    vf::check(tok::live(s), 904);
                    vf::check(i < $N, 603);
                    if i < $N { seq[i] = s; } else { break; }
                    if p < n && s == $expect[p] { hits += 1; }
                    i += 1;
                }
                None => break,
            }
        }
        vf::check(i == n, 604);
        if p < n { vf::check(hits == 1, 605); }
        vf::check(it.next().is_none(), 606);
        vf::check(it.next().is_none(), 606);
        vf::check(it.len() == 0 && it.size_hint() == (0, Some(0)), 601);
        seq
    }};
}

/// second traversal yields `seq` again; after `j` steps `count()` is the remainder
macro_rules! again {
    ($mk:expr, $ser:expr, $seq:expr, $n:expr, $N:expr) => {{
        let mut it = $mk;
        let mut i = 0usize;
        while i < $N {
            match it.next() {
                Some(x) => { vf::check(i < $n && $ser(&x) == $seq[i], 607); }
                None => { vf::check(i >= $n, 607); }
            }
            i += 1;
        }
        let j = vf::any_usize();
        vf::assume(j <= $n);
        let mut it = $mk;
        let mut i = 0usize;
        while i < $N { if i < j { let _ = it.next(); } i += 1; }
        vf::check(it.count() == $n - j, 609);
    }};
}

/// a clone taken after `j` steps continues exactly like the original
macro_rules! clone_after {
    ($mk:expr, $ser:expr, $seq:expr, $n:expr, $N:expr) => {{
        let j = vf::any_usize();
        vf::assume(j <= $n);
        let mut a = $mk;
        let mut i = 0usize;
        while i < $N { if i < j { let _ = a.next(); } i += 1; }
        let mut b = a.clone();
        vf::check(a.len() == b.len(), 608);
        let mut i = 0usize;
        while i <= $N {
            match (a.next(), b.next()) {
                (Some(x), Some(y)) => { vf::check($ser(&x) == $ser(&y) && j + i < $N && $ser(&x) == $seq[j + i], 608); }
                (None, None) => {}
                _ => vf::check(false, 608),
            }
            i += 1;
        }
    }};
}

pub fn c09_iter<const N: usize>() {
    tok::reset();
    let (m, md) = any_map::<N>();
    let n = md.n;
    let seq = walk!(m.iter(), |x: &(&Tok, &Tok)| x.0.serial(), md.ks, n, N);
    // each yielded pair is a stored association
    let p = vf::any_usize();
    for (k, v) in m.iter() {
        if p < n && k.serial() == md.ks[p] { vf::check(v.serial() == md.vs[p] && k.key() == md.keys[p], 611); }
    }
    for (k, v) in &m { let _ = (k, v); } // IntoIterator for &Map is the same iterator
    vf::check((&m).into_iter().len() == n, 601);
    again!(m.iter(), |x: &(&Tok, &Tok)| x.0.serial(), seq, n, N);
    clone_after!(m.iter(), |x: &(&Tok, &Tok)| x.0.serial(), seq, n, N);
    if n > 0 { vf::reach(1); } else { vf::reach(2); }
    observe(&m, &md);
    finish(m);
}

pub fn c09_keys<const N: usize>() {
    tok::reset();
    let (m, md) = any_map::<N>();
    let n = md.n;
    let seq = walk!(m.keys(), |x: &&Tok| x.serial(), md.ks, n, N);
    again!(m.keys(), |x: &&Tok| x.serial(), seq, n, N);
    clone_after!(m.keys(), |x: &&Tok| x.serial(), seq, n, N);
    if n > 0 { vf::reach(1); } else { vf::reach(2); }
    observe(&m, &md);
    finish(m);
}

pub fn c09_values<const N: usize>() {
    tok::reset();
    let (m, md) = any_map::<N>();
    let n = md.n;
    let seq = walk!(m.values(), |x: &&Tok| x.serial(), md.vs, n, N);
    again!(m.values(), |x: &&Tok| x.serial(), seq, n, N);
    clone_after!(m.values(), |x: &&Tok| x.serial(), seq, n, N);
    if n > 0 { vf::reach(1); } else { vf::reach(2); }
    observe(&m, &md);
    finish(m);
}

pub fn c09_iter_mut<const N: usize>() {
    tok::reset();
    let (mut m, md) = any_map::<N>();
    let n = md.n;
    let seq = walk!(m.iter_mut(), |x: &(&Tok, &mut Tok)| x.0.serial(), md.ks, n, N);
    again!(m.iter_mut(), |x: &(&Tok, &mut Tok)| x.0.serial(), seq, n, N);
    // writes through iter_mut are exactly what later lookups return
    let t = vf::any_u8();
    let p = vf::any_usize();
    for (k, v) in m.iter_mut() {
        if p < n && k.serial() == md.ks[p] { vf::check(v.serial() == md.vs[p], 611); }
        v.set_tag(t ^ k.key());
    }
    for (k, v) in &mut m { let _ = (k, v); }
    if p < n {
        vf::reach(1);
        match m.get(&tok::BKey::free(md.keys[p])) {
            Some(v) => vf::check(v.tag() == t ^ md.keys[p] && v.serial() == md.vs[p], 610),
            None => vf::check(false, 610),
        }
    } else { vf::reach(2); }
    observe(&m, &md);
    finish(m);
}

pub fn c09_values_mut<const N: usize>() {
    tok::reset();
    let (mut m, md) = any_map::<N>();
    let n = md.n;
    let seq = walk!(m.values_mut(), |x: &&mut Tok| x.serial(), md.vs, n, N);
    again!(m.values_mut(), |x: &&mut Tok| x.serial(), seq, n, N);
    let t = vf::any_u8();
    for v in m.values_mut() { v.set_tag(t); }
    let p = vf::any_usize();
    if p < n {
        vf::reach(1);
        match m.get(&tok::BKey::free(md.keys[p])) {
            Some(v) => vf::check(v.tag() == t && v.serial() == md.vs[p], 610),
            None => vf::check(false, 610),
        }
    } else { vf::reach(2); }
    observe(&m, &md);
    finish(m);
}

pub fn c09_set_iter<const N: usize>() {
    tok::reset();
    let (s, md) = any_set::<N>();
    let n = md.n;
    let seq = walk!(s.iter(), |x: &&Tok| x.serial(), md.ks, n, N);
    again!(s.iter(), |x: &&Tok| x.serial(), seq, n, N);
    clone_after!(s.iter(), |x: &&Tok| x.serial(), seq, n, N);
    for k in &s { let _ = k; }
    vf::check((&s).into_iter().len() == n, 601);
    if n > 0 { vf::reach(1); } else { vf::reach(2); }
    observe_set(&s, &md);
    finish_set(s);
}

/// consuming iterator stepped `j` times (solver's choice), then dropped or forgotten
macro_rules! consume {
    ($it:expr, $ser:expr, $expect:expr, $n:expr, $N:expr, $per_item:expr) => {{
        let n: usize = $n;
        let j = vf::any_usize(); // how many items are taken; j > n means "to the end and beyond"
        let forget = vf::any_bool();
        let p = vf::any_usize();
        let mut it = $it;
        let mut i = 0usize;
        let mut hits = 0usize;
        let created0 = tok::created();
        while i <= $N {
            if i < j {
                vf::check(it.len() == n.saturating_sub(i), 601);
                vf::check(it.size_hint() == (n.saturating_sub(i), Some(n.saturating_sub(i))), 602);
                match it.next() {
                    Some(x) => {
                        vf::check(i < n, 604);
                        let s: u16 = $ser(&x);
                        vf::check(tok::live(s), 904);
                        if p < n && s == $expect[p] { hits += 1; }
                        drop(x);
                    }
                    None => { vf::check(i >= n, 604); }
                }
            }
            i += 1;
        }
        let _ = created0;
        if j > n {
            vf::reach(1);
            if p < n { vf::check(hits == 1, 605); }
            vf::check(it.next().is_none() && it.len() == 0, 606);
        } else {
            vf::reach(2);
            vf::check(hits <= 1, 605);
            vf::check(it.len() == n - j, 601);
        }
        let per_item: usize = $per_item;
        if forget {
            vf::reach(3);
            core::mem::forget(it);
            // leak, never a second destruction (901); exactly the not-yet-yielded items may be missing
            let taken = if j < n { j } else { n };
            vf::check(tok::dropped() + (n - taken) * per_item == tok::created(), 614);
        } else {
            vf::reach(4);
            drop(it);
            vf::check(tok::balanced(), 614);
        }
        forget
    }};
}

pub fn c10_into_iter<const N: usize>() {
    tok::reset();
    let (m, md) = any_map::<N>();
    let _ = consume!(m.into_iter(), |x: &(Tok, Tok)| x.0.serial(), md.ks, md.n, N, 2);
}
pub fn c10_into_keys<const N: usize>() {
    tok::reset();
    let (m, md) = any_map::<N>();
    let _ = consume!(m.into_keys(), |x: &Tok| x.serial(), md.ks, md.n, N, 2);
}
pub fn c10_into_values<const N: usize>() {
    tok::reset();
    let (m, md) = any_map::<N>();
    let _ = consume!(m.into_values(), |x: &Tok| x.serial(), md.vs, md.n, N, 2);
}
pub fn c10_set_into_iter<const N: usize>() {
    tok::reset();
    let (s, md) = any_set::<N>();
    let _ = consume!(s.into_iter(), |x: &Tok| x.serial(), md.ks, md.n, N, 1);
}

/// after drain() the map is empty and fully reusable however much was consumed
pub fn c10_drain<const N: usize>() {
    tok::reset();
    let (mut m, mut md) = any_map::<N>();
    let forgot = consume!(m.drain(), |x: &(Tok, Tok)| x.0.serial(), md.ks, md.n, N, 2);
    vf::check(m.len() == 0 && m.is_empty(), 612);
    md.clear();
    observe(&m, &md);
    let mut i = 0;
    while i < N {
        let (kt, vt) = (Tok::new(i as u8), Tok::new(9));
        md.insert(i as u8, 9, kt.serial(), vt.serial());
        vf::check(m.insert(kt, vt).is_none(), 613);
        i += 1;
    }
    observe(&m, &md);
    drop(m);
    if !forgot { vf::check(tok::balanced(), 302); } else { vf::check(tok::no_excess(), 301); }
}
pub fn c10_set_drain<const N: usize>() {
    tok::reset();
    let (mut s, mut md) = any_set::<N>();
    let forgot = consume!(s.drain(), |x: &Tok| x.serial(), md.ks, md.n, N, 1);
    vf::check(s.len() == 0 && s.is_empty(), 612);
    md.clear();
    observe_set(&s, &md);
    let mut i = 0;
    while i < N {
        let kt = Tok::new(i as u8);
        md.insert(i as u8, 0, kt.serial(), 0);
        vf::check(s.insert(kt), 613);
        i += 1;
    }
    observe_set(&s, &md);
    drop(s);
    if !forgot { vf::check(tok::balanced(), 302); } else { vf::check(tok::no_excess(), 301); }
}

/// Default iterators are empty (and, for the owning ones, own nothing)
pub fn c09_defaults<const N: usize>() {
    tok::reset();
    vf::check(micromap::Iter::<Tok, Tok>::default().next().is_none(), 606);
    vf::check(micromap::IterMut::<Tok, Tok>::default().next().is_none(), 606);
    vf::check(micromap::Keys::<Tok, Tok>::default().len() == 0, 601);
    vf::check(micromap::Values::<Tok, Tok>::default().len() == 0, 601);
    vf::check(micromap::ValuesMut::<Tok, Tok>::default().next().is_none(), 606);
    vf::check(micromap::IntoIter::<Tok, Tok, N>::default().next().is_none(), 606);
    vf::check(micromap::IntoKeys::<Tok, Tok, N>::default().len() == 0, 601);
    vf::check(micromap::IntoValues::<Tok, Tok, N>::default().next().is_none(), 606);
    let m: Map<Tok, Tok, N> = Map::default();
    let s: Set<Tok, N> = Set::default();
    vf::check(m.len() == 0 && m.is_empty() && s.len() == 0 && s.is_empty(), 201);
    vf::check(Map::<Tok, Tok, N>::new().iter().next().is_none(), 604);
    vf::reach(1);
    vf::check(tok::balanced(), 302);
}

harnesses! {
    c09_iter: [0] [1] [2] [3];
    c09_keys: [0] [1] [2] [3];
    c09_values: [0] [1] [2] [3];
    c09_iter_mut: [0] [1] [2] [3];
    c09_values_mut: [0] [1] [2] [3];
    c09_set_iter: [0] [1] [2] [3];
    c09_defaults: [0] [2];
    c10_into_iter: [0] [1] [2] [3];
    c10_into_keys: [0] [1] [2] [3];
    c10_into_values: [0] [1] [2] [3];
    c10_set_into_iter: [0] [1] [2] [3];
    c10_drain: [0] [1] [2] [3];
    c10_set_drain: [0] [1] [2] [3];
    @deep
    c09_iter: [4] [5];
    c09_keys: [4] [5];
    c09_values: [4] [5];
    c09_iter_mut: [4] [5];
    c09_values_mut: [4] [5];
    c09_set_iter: [4] [5];
    c10_into_iter: [4] [5];
    c10_into_keys: [4] [5];
    c10_into_values: [4] [5];
    c10_set_into_iter: [4] [5];
    c10_drain: [4] [5];
    c10_set_drain: [4] [5];
}
