//! Group `g_iter`: borrowing iterators (C09), consuming iterators and drain (C10, C02).
//! ids 601 len(), 602 size_hint(), 603 more items than capacity, 604 total count, 605 a stored entry not yielded exactly once,
//! 606 not fused, 607 second traversal differs, 608 clone diverges, 609 count(), 610 write-through lost,
//! 611 yielded pair is not a stored association, 612 drained container not empty, 613 container not reusable after drain,
//! 614 remaining elements not released when the iterator is dropped
use crate::model::*;
use crate::tok::{self, Tok, FREE};
use crate::vf;
use micromap::{Map, Set};

/// full traversal with per-step protocol checks; returns the yielded serial sequence
macro_rules! walk {
    ($mk:expr, $ser:expr, $expect:expr, $n:expr, $N:expr) => {{
        let n: usize = $n;
        let p = vf::any_usize(); // symbolic index of a model entry: "every entry exactly once"
        let mut seq = [FREE; $N];
        let mut it = $mk;
        let mut i = 0usize;
        let mut hits = 0usize;
        loop {
            vf::check(it.len() == n.wrapping_sub(i), 601);
            vf::check(it.size_hint() == (n.wrapping_sub(i), Some(n.wrapping_sub(i))), 602);
            match it.next() {
                Some(x) => {
                    let s: u16 = $ser(&x);
                    vf::check(tok::live(s), 904);
                    vf::check(i < $N, 603);
                    if i < $N { seq[i] = s; } else { break; }
                    if p < n && s == $expect[p] { hits += 1; }
                    i += 1;
                }
                None => break,
            }
        }
        vf::check(i == n, 604);
        if p < n { vf::check(hits == 1, 605); }
        vf::check(it.next().is_none(), 606);
        vf::check(it.next().is_none(), 606);
        vf::check(it.len() == 0 && it.size_hint() == (0, Some(0)), 601);
        seq
    }};
}

/// second traversal yields `seq` again; after `j` steps `count()` is the remainder
macro_rules! again {
    ($mk:expr, $ser:expr, $seq:expr, $n:expr, $N:expr) => {{
        let mut it = $mk;
        let mut i = 0usize;
        while i < $N {
            match it.next() {
                Some(x) => { vf::check(i < $n && $ser(&x) == $seq[i], 607); }
                None => { vf::check(i >= $n, 607); }
            }
            i += 1;
        }
        let j = vf::any_usize();
        vf::assume(j <= $n);
        let mut it = $mk;
        let mut i = 0usize;
        while i < $N { if i < j { let _ = it.next(); } i += 1; }
        vf::check(it.count() == $n - j, 609);
    }};
}

/// a clone taken after `j` steps continues exactly like the original
macro_rules! clone_after {
    ($mk:expr, $ser:expr, $seq:expr, $n:expr, $N:expr) => {{
        let j = vf::any_usize();
        vf::assume(j <= $n);
        let mut a = $mk;
        let mut i = 0usize;
        while i < $N { if i < j { let _ = a.next(); } i += 1; }
        let mut b = a.clone();
        vf::check(a.len() == b.len(), 608);
        let mut i = 0usize;
        while i <= $N {
            match (a.next(), b.next()) {
                (Some(x), Some(y)) => { vf::check($ser(&x) == $ser(&y) && j + i < $N && $ser(&x) == $seq[j + i], 608); }
                (None, None) => {}
                _ => vf::check(false, 608),
            }
            i += 1;
        }
    }};
}

pub fn c09_iter<const N: usize>() {
    tok::reset();
    let (m, md) = any_map::<N>();
    let n = md.n;
    let seq = walk!(m.iter(), |x: &(&Tok, &Tok)| x.0.serial(), md.ks, n, N);
    // each yielded pair is a stored association
    let p = vf::any_usize();
    for (k, v) in m.iter() {
        if p < n && k.serial() == md.ks[p] { vf::check(v.serial() == md.vs[p] && k.key() == md.keys[p], 611); }
    }
    for (k, v) in &m { let _ = (k, v); } // IntoIterator for &Map is the same iterator
    vf::check((&m).into_iter().len() == n, 601);
    again!(m.iter(), |x: &(&Tok, &Tok)| x.0.serial(), seq, n, N);
    clone_after!(m.iter(), |x: &(&Tok, &Tok)| x.0.serial(), seq, n, N);
    if n > 0 { vf::reach(1); } else { vf::reach(2); }
    observe(&m, &md);
    finish(m);
}

pub fn c09_keys<const N: usize>() {
    tok::reset();
    let (m, md) = any_map::<N>();
    let n = md.n;
    let seq = walk!(m.keys(), |x: &&Tok| x.serial(), md.ks, n, N);
    again!(m.keys(), |x: &&Tok| x.serial(), seq, n, N);
    clone_after!(m.keys(), |x: &&Tok| x.serial(), seq, n, N);
    if n > 0 { vf::reach(1); } else { vf::reach(2); }
    observe(&m, &md);
    finish(m);
}

pub fn c09_values<const N: usize>() {
    tok::reset();
    let (m, md) = any_map::<N>();
    let n = md.n;
    let seq = walk!(m.values(), |x: &&Tok| x.serial(), md.vs, n, N);
    again!(m.values(), |x: &&Tok| x.serial(), seq, n, N);
    clone_after!(m.values(), |x: &&Tok| x.serial(), seq, n, N);
    if n > 0 { vf::reach(1); } else { vf::reach(2); }
    observe(&m, &md);
    finish(m);
}

pub fn c09_iter_mut<const N: usize>() {
    tok::reset();
    let (mut m, md) = any_map::<N>();
    let n = md.n;
    let seq = walk!(m.iter_mut(), |x: &(&Tok, &mut Tok)| x.0.serial(), md.ks, n, N);
    again!(m.iter_mut(), |x: &(&Tok, &mut Tok)| x.0.serial(), seq, n, N);
    // writes through iter_mut are exactly what later lookups return
    let t = vf::any_u8();
    let p = vf::any_usize();
    for (k, v) in m.iter_mut() {
        if p < n && k.serial() == md.ks[p] { vf::check(v.serial() == md.vs[p], 611); }
        v.set_tag(t ^ k.key());
    }
    for (k, v) in &mut m { let _ = (k, v); }
    if p < n {
        vf::reach(1);
        match m.get(&tok::BKey::free(md.keys[p])) {
            Some(v) => vf::check(v.tag() == t ^ md.keys[p] && v.serial() == md.vs[p], 610),
            None => vf::check(false, 610),
        }
    } else { vf::reach(2); }
    observe(&m, &md);
    finish(m);
}

pub fn c09_values_mut<const N: usize>() {
    tok::reset();
    let (mut m, md) = any_map::<N>();
    let n = md.n;
    let seq = walk!(m.values_mut(), |x: &&mut Tok| x.serial(), md.vs, n, N);
    again!(m.values_mut(), |x: &&mut Tok| x.serial(), seq, n, N);
    let t = vf::any_u8();
    for v in m.values_mut() { v.set_tag(t); }
    let p = vf::any_usize();
    if p < n {
        vf::reach(1);
        match m.get(&tok::BKey::free(md.keys[p])) {
            Some(v) => vf::check(v.tag() == t && v.serial() == md.vs[p], 610),
            None => vf::check(false, 610),
        }
    } else { vf::reach(2); }
    observe(&m, &md);
    finish(m);
}

pub fn c09_set_iter<const N: usize>() {
    tok::reset();
    let (s, md) = any_set::<N>();
    let n = md.n;
    let seq = walk!(s.iter(), |x: &&Tok| x.serial(), md.ks, n, N);
    again!(s.iter(), |x: &&Tok| x.serial(), seq, n, N);
    clone_after!(s.iter(), |x: &&Tok| x.serial(), seq, n, N);
    for k in &s { let _ = k; }
    vf::check((&s).into_iter().len() == n, 601);
    if n > 0 { vf::reach(1); } else { vf::reach(2); }
    observe_set(&s, &md);
    finish_set(s);
}

/// consuming iterator stepped `j` times (solver's choice), then dropped or forgotten
macro_rules! consume {
    ($it:expr, $ser:expr, $expect:expr, $n:expr, $N:expr, $per_item:expr) => {{
        let n: usize = $n;
        let j = vf::any_usize(); // how many items are taken; j > n means "to the end and beyond"
        let forget = vf::any_bool();
        let p = vf::any_usize();
        let mut it = $it;
        let mut i = 0usize;
        let mut hits = 0usize;
        let created0 = tok::created();
        while i <= $N {
            if i < j {
                vf::check(it.len() == n.saturating_sub(i), 601);
                vf::check(it.size_hint() == (n.saturating_sub(i), Some(n.saturating_sub(i))), 602);
                match it.next() {
                    Some(x) => {
                        vf::check(i < n, 604);
                        let s: u16 = $ser(&x);
                        vf::check(tok::live(s), 904);
                        if p < n && s == $expect[p] { hits += 1; }
                        drop(x);
                    }
                    None => { vf::check(i >= n, 604); }
                }
            }
            i += 1;
        }
        let _ = created0;
        if j > n {
            vf::reach(1);
            if p < n { vf::check(hits == 1, 605); }
            vf::check(it.next().is_none() && it.len() == 0, 606);
        } else {
            vf::reach(2);
            vf::check(hits <= 1, 605);
            vf::check(it.len() == n - j, 601);
        }
        let per_item: usize = $per_item;
        if forget {
            vf::reach(3);
            core::mem::forget(it);
            // leak, never a second destruction (901); exactly the not-yet-yielded items may be missing
            let taken = if j < n { j } else { n };
            vf::check(tok::dropped() + (n - taken) * per_item == tok::created(), 614);
        } else {
            vf::reach(4);
            drop(it);
            vf::check(tok::balanced(), 614);
        }
        forget
    }};
}

pub fn c10_into_iter<const N: usize>() {
    tok::reset();
    let (m, md) = any_map::<N>();
    let _ = consume!(m.into_iter(), |x: &(Tok, Tok)| x.0.serial(), md.ks, md.n, N, 2);
}
pub fn c10_into_keys<const N: usize>() {
    tok::reset();
    let (m, md) = any_map::<N>();
    let _ = consume!(m.into_keys(), |x: &Tok| x.serial(), md.ks, md.n, N, 2);
}
pub fn c10_into_values<const N: usize>() {
    tok::reset();
    let (m, md) = any_map::<N>();
    let _ = consume!(m.into_values(), |x: &Tok| x.serial(), md.vs, md.n, N, 2);
}
pub fn c10_set_into_iter<const N: usize>() {
    tok::reset();
    let (s, md) = any_set::<N>();
    let _ = consume!(s.into_iter(), |x: &Tok| x.serial(), md.ks, md.n, N, 1);
}

/// after drain() the map is empty and fully reusable however much was consumed
pub fn c10_drain<const N: usize>() {
    tok::reset();
    let (mut m, mut md) = any_map::<N>();
    let forgot = consume!(m.drain(), |x: &(Tok, Tok)| x.0.serial(), md.ks, md.n, N, 2);
    vf::check(m.len() == 0 && m.is_empty(), 612);
    md.clear();
    observe(&m, &md);
    let mut i = 0;
    while i < N {
        let (kt, vt) = (Tok::new(i as u8), Tok::new(9));
        md.insert(i as u8, 9, kt.serial(), vt.serial());
        vf::check(m.insert(kt, vt).is_none(), 613);
        i += 1;
    }
    observe(&m, &md);
    drop(m);
    if !forgot { vf::check(tok::balanced(), 302); } else { vf::check(tok::no_excess(), 301); }
}
pub fn c10_set_drain<const N: usize>() {
    tok::reset();
    let (mut s, mut md) = any_set::<N>();
    let forgot = consume!(s.drain(), |x: &Tok| x.serial(), md.ks, md.n, N, 1);
    vf::check(s.len() == 0 && s.is_empty(), 612);
    md.clear();
    observe_set(&s, &md);
    let mut i = 0;
    while i < N {
        let kt = Tok::new(i as u8);
        md.insert(i as u8, 0, kt.serial(), 0);
        vf::check(s.insert(kt), 613);
        i += 1;
    }
    observe_set(&s, &md);
    drop(s);
    if !forgot { vf::check(tok::balanced(), 302); } else { vf::check(tok::no_excess(), 301); }
}

/// Provided `Iterator` methods that an implementation may override (nth, last, count, fold / for_each, size_hint after
/// them) must agree with plain stepping: iterator `a` uses the method, its twin `b` (same container state) is stepped
/// with next().  `$ser` maps an item to a comparable id.  ids 621 nth, 622 last, 623 count, 624 fold, 625 state after nth
macro_rules! provided {
    ($a:expr, $b:expr, $ser:expr, $N:expr) => {{
        let (j, k, which) = (vf::any_usize(), vf::any_usize(), vf::any_u8());
        vf::assume(which < 4 && k <= $N);
        let mut a = $a;
        let mut b = $b;
        // common symbolic prefix by stepping
        let mut i = 0usize;
        while i < $N { if i < j { let (x, y) = (a.next(), b.next()); vf::check(x.is_some() == y.is_some(), 625); drop((x, y)); } i += 1; }
        match which {
            0 => {
                vf::reach(1);
                // nth(k) == k discarded next() calls followed by one more
                let x = a.nth(k);
                let mut i = 0usize;
                while i < $N { if i < k { drop(b.next()); } i += 1; }
                let y = b.next();
                match (&x, &y) { (Some(p), Some(q)) => vf::check($ser(p) == $ser(q), 621), (None, None) => {}, _ => vf::check(false, 621) }
                drop((x, y));
                vf::check(a.len() == b.len() && a.size_hint() == b.size_hint(), 625);
                // and the two continue identically
                let mut i = 0usize;
                while i <= $N {
                    let (x, y) = (a.next(), b.next());
                    match (&x, &y) { (Some(p), Some(q)) => vf::check($ser(p) == $ser(q), 625), (None, None) => {}, _ => vf::check(false, 625) }
                    drop((x, y));
                    i += 1;
                }
            }
            1 => {
                vf::reach(2);
                let x = a.last();
                let mut y = None;
                let mut i = 0usize;
                while i <= $N { if let Some(q) = b.next() { y = Some(q); } i += 1; }
                match (&x, &y) { (Some(p), Some(q)) => vf::check($ser(p) == $ser(q), 622), (None, None) => {}, _ => vf::check(false, 622) }
                drop((x, y));
            }
            2 => {
                vf::reach(3);
                let want = b.len();
                vf::check(a.count() == want, 623);
                let mut n = 0usize;
                let mut i = 0usize;
                while i <= $N { if let Some(q) = b.next() { n += 1; drop(q); } i += 1; }
                vf::check(n == want, 623);
            }
            _ => {
                vf::reach(4);
                // fold / for_each visit the same items in the same order as stepping
                let mut fs = [0u16; 8];
                let fnn = a.fold(0usize, |n, p| { if n < 8 { fs[n] = $ser(&p); } n + 1 });
                let mut i = 0usize;
                let mut n = 0usize;
                while i <= $N { if let Some(q) = b.next() { vf::check(n < 8 && fs[n] == $ser(&q), 624); n += 1; drop(q); } i += 1; }
                vf::check(n == fnn, 624);
            }
        }
    }};
}

/// borrowing iterators: two iterators over the same container
pub fn c09_provided<const N: usize>() {
    tok::reset();
    let (mut m, md) = any_map::<N>();
    let kind = vf::any_u8();
    vf::assume(kind < 4);
    match kind {
        0 => provided!(m.iter(), m.iter(), |x: &(&Tok, &Tok)| x.0.serial(), N),
        1 => provided!(m.keys(), m.keys(), |x: &&Tok| x.serial(), N),
        2 => provided!(m.values(), m.values(), |x: &&Tok| x.serial(), N),
        _ => {
            // iter_mut / values_mut cannot coexist on one map: compare with a shared iterator's ids
            let which = vf::any_bool();
            let k = vf::any_usize();
            vf::assume(k <= N);
            let mut want = tok::FREE;
            { let mut b = m.iter(); let mut i = 0usize; while i < N { if i < k { let _ = b.next(); } i += 1; } if let Some((_, v)) = b.next() { want = v.serial(); } }
            let got = if which { m.iter_mut().nth(k).map(|x| x.1.serial()) } else { m.values_mut().nth(k).map(|v| v.serial()) };
            vf::check(got.unwrap_or(tok::FREE) == want, 621);
            let c = if which { m.iter_mut().count() } else { m.values_mut().count() };
            vf::check(c == md.n, 623);
            let l = if which { m.iter_mut().last().map(|x| x.1.serial()) } else { m.values_mut().last().map(|v| v.serial()) };
            let wl = m.iter().last().map(|x| x.1.serial());
            vf::check(l == wl, 622);
            vf::reach(1); vf::reach(2); vf::reach(3); vf::reach(4);
        }
    }
    observe(&m, &md);
    finish(m);
}
pub fn c09_set_provided<const N: usize>() {
    tok::reset();
    let (s, md) = any_set::<N>();
    provided!(s.iter(), s.iter(), |x: &&Tok| x.serial(), N);
    observe_set(&s, &md);
    finish_set(s);
}

/// twin containers built by the same operation sequence (same key/value classes in the same slot order)
fn twin_maps<const N: usize>() -> (micromap::Map<Tok, Tok, N>, micromap::Map<Tok, Tok, N>) {
    let (mut a, mut b): (micromap::Map<Tok, Tok, N>, micromap::Map<Tok, Tok, N>) = (empty_map(), empty_map());
    let n = vf::any_usize();
    vf::assume(n <= N);
    let mut i = 0;
    while i < N {
        let (k, v) = (vf::any_u8(), vf::any_u8());
        if i < n { drop(a.insert(Tok::new(k), Tok::new(v))); drop(b.insert(Tok::new(k), Tok::new(v))); }
        i += 1;
    }
    // a removal, so that the slot order is not simply the insertion order
    let r = vf::any_u8();
    if vf::any_bool() { drop(a.remove(&tok::BKey::free(r))); drop(b.remove(&tok::BKey::free(r))); }
    (a, b)
}

/// consuming iterators and drain: provided methods vs stepping on a twin container; items compared by (key class, value class)
pub fn c10_provided<const N: usize, const KIND: u8>() {
    tok::reset();
    let (mut a, mut b) = twin_maps::<N>();
    match KIND {
        0 => provided!(a.into_iter(), b.into_iter(), |x: &(Tok, Tok)| ((x.0.key() as u16) << 8) | x.1.key() as u16, N),
        1 => provided!(a.into_keys(), b.into_keys(), |x: &Tok| x.key() as u16, N),
        2 => provided!(a.into_values(), b.into_values(), |x: &Tok| x.key() as u16, N),
        _ => { provided!(a.drain(), b.drain(), |x: &(Tok, Tok)| ((x.0.key() as u16) << 8) | x.1.key() as u16, N); vf::check(a.len() == 0 && b.len() == 0, 612); drop(a); drop(b); }
    }
    vf::check(tok::balanced(), 302);
}
pub fn c10_set_provided<const N: usize>() {
    tok::reset();
    let (mut a, mut b): (Set<Tok, N>, Set<Tok, N>) = (empty_set(), empty_set());
    let n = vf::any_usize();
    vf::assume(n <= N);
    let mut i = 0;
    while i < N {
        let k = vf::any_u8();
        if i < n { let _ = a.insert(Tok::new(k)); let _ = b.insert(Tok::new(k)); }
        i += 1;
    }
    if vf::any_bool() { provided!(a.into_iter(), b.into_iter(), |x: &Tok| x.key() as u16, N); }
    else { provided!(a.drain(), b.drain(), |x: &Tok| x.key() as u16, N); drop(a); drop(b); }
    vf::check(tok::balanced(), 302);
}

/// provided methods on a drain, judged by the ledger and the model alone (no twin container, so it is cheap enough for the
/// quick tier): whatever `nth` / `last` / `count` / `fold` / `for_each` skip, every drained element is destroyed exactly
/// once, results are stored associations, and the map is empty afterwards
pub fn c10_drain_methods<const N: usize>() {
    tok::reset();
    let (mut m, md) = any_map::<N>();
    let (which, k, j) = (vf::any_u8(), vf::any_usize(), vf::any_usize());
    vf::assume(which < 4 && k <= N && j <= N);
    let is_assoc = |x: &(Tok, Tok)| -> bool { match md.find(x.0.key()) { Some(i) => x.0.serial() == md.ks[i] && x.1.serial() == md.vs[i], None => false } };
    {
        let mut d = m.drain();
        let mut i = 0usize;
        let mut taken = 0usize;
        while i < N { if i < j { if let Some(x) = d.next() { vf::check(is_assoc(&x), 605); taken += 1; } } i += 1; }
        let rest = md.n - taken;
        match which {
            0 => { vf::reach(1); let r = d.nth(k); vf::check(r.is_some() == (k < rest), 621); if let Some(x) = &r { vf::check(is_assoc(x), 621); }
                   vf::check(d.len() == rest.saturating_sub(k + 1), 625); drop(r); }
            1 => { vf::reach(2); let r = d.last(); vf::check(r.is_some() == (rest > 0), 622); if let Some(x) = &r { vf::check(is_assoc(x), 622); } drop(r); }
            2 => { vf::reach(3); vf::check(d.count() == rest, 623); }
            _ => { vf::reach(4); let c = d.fold(0usize, |c, x| { vf::check(is_assoc(&x), 624); c + 1 }); vf::check(c == rest, 624); }
        }
    }
    vf::check(m.len() == 0 && m.is_empty(), 612);
    drop(m);
    vf::check(tok::balanced(), 302);
}
pub fn c10_set_drain_methods<const N: usize>() {
    tok::reset();
    let (mut s, md) = any_set::<N>();
    let (which, k) = (vf::any_u8(), vf::any_usize());
    vf::assume(which < 4 && k <= N);
    {
        let mut d = s.drain();
        match which {
            0 => { vf::reach(1); let r = d.nth(k); vf::check(r.is_some() == (k < md.n), 621); if let Some(x) = &r { vf::check(md.has(x.key()), 621); } drop(r); }
            1 => { vf::reach(2); let r = d.last(); vf::check(r.is_some() == (md.n > 0), 622); drop(r); }
            2 => { vf::reach(3); vf::check(d.count() == md.n, 623); }
            _ => { vf::reach(4); let c = d.fold(0usize, |c, x| { vf::check(md.has(x.key()), 624); c + 1 }); vf::check(c == md.n, 624); }
        }
    }
    vf::check(s.len() == 0, 612);
    drop(s);
    vf::check(tok::balanced(), 302);
}

/// Default iterators are empty (and, for the owning ones, own nothing)
pub fn c09_defaults<const N: usize>() {
    tok::reset();
    vf::check(micromap::Iter::<Tok, Tok>::default().next().is_none(), 606);
    vf::check(micromap::IterMut::<Tok, Tok>::default().next().is_none(), 606);
    vf::check(micromap::Keys::<Tok, Tok>::default().len() == 0, 601);
    vf::check(micromap::Values::<Tok, Tok>::default().len() == 0, 601);
    vf::check(micromap::ValuesMut::<Tok, Tok>::default().next().is_none(), 606);
    vf::check(micromap::IntoIter::<Tok, Tok, N>::default().next().is_none(), 606);
    vf::check(micromap::IntoKeys::<Tok, Tok, N>::default().len() == 0, 601);
    vf::check(micromap::IntoValues::<Tok, Tok, N>::default().next().is_none(), 606);
    let m: Map<Tok, Tok, N> = Map::default();
    let s: Set<Tok, N> = Set::default();
    vf::check(m.len() == 0 && m.is_empty() && s.len() == 0 && s.is_empty(), 201);
    vf::check(Map::<Tok, Tok, N>::new().iter().next().is_none(), 604);
    vf::reach(1);
    vf::check(tok::balanced(), 302);
}

pub static mut ZE_MADE: usize = 0;
pub static mut ZE_DROPS: usize = 0;
/// zero-sized, never equal to another one (so a container holds several), counts constructions and destructions
pub struct Ze;
impl Ze { fn new() -> Ze { unsafe { ZE_MADE += 1; } Ze } }
impl PartialEq for Ze { #[inline(always)] fn eq(&self, _: &Ze) -> bool { false } }
impl Drop for Ze { #[inline(never)] fn drop(&mut self) { unsafe { ZE_DROPS += 1; } } }
#[inline(always)] fn ze_drops() -> usize { unsafe { ZE_DROPS } }

/// Zero-sized elements WITH a destructor through every path that destroys elements: all slots share one address, a pointer range
/// over them is empty and `size_of` is 0, but each element must still be destroyed exactly once.
/// W: 0 drop the map, 1 clear, 2 into_iter, 3 drain, 4 retain, 5 into_keys, 6 into_values, 7 Set::into_iter, 8 Set::drain, 9 remove-by-retain + reuse
pub fn c02_zst_drops<const N: usize, const W: u8>() {
    unsafe { ZE_MADE = 0; ZE_DROPS = 0; }
    let (n, j) = (vf::any_usize(), vf::any_usize());
    vf::assume(n <= N && j <= n);
    macro_rules! steps { ($it:expr) => {{ let mut i = 0; while i < N { if i < j { let x = $it.next(); vf::check(x.is_some(), 604); drop(x); vf::check(ze_drops() == i + 1, 614); } i += 1; } }}; }
    if W == 7 || W == 8 {
        let mut s: Set<Ze, N> = empty_set();
        let mut i = 0;
        while i < N { if i < n { vf::check(s.insert(Ze::new()), 100); } i += 1; }
        vf::check(s.len() == n && ze_drops() == 0, 201);
        if W == 7 { let mut it = s.into_iter(); steps!(it); vf::check(it.len() == n - j, 601); drop(it); }
        else { { let mut d = s.drain(); steps!(d); vf::check(d.len() == n - j, 601); } vf::check(ze_drops() == n && s.is_empty(), 614); drop(s); }
    } else {
        let mut m: Map<Ze, (), N> = empty_map();
        let mut i = 0;
        while i < N { if i < n { vf::check(m.insert(Ze::new(), ()).is_none(), 100); } i += 1; }
        vf::check(m.len() == n && ze_drops() == 0, 201);
        match W {
            0 => drop(m),
            1 => { m.clear(); vf::check(ze_drops() == n && m.is_empty(), 614); drop(m); }
            2 => { let mut it = m.into_iter(); steps!(it); vf::check(it.len() == n - j, 601); drop(it); }
            3 => { { let mut d = m.drain(); steps!(d); vf::check(d.len() == n - j, 601); } vf::check(ze_drops() == n && m.is_empty(), 614); drop(m); }
            4 => { let mut kept = 0usize; m.retain(|_, _| { let k = vf::any_bool(); if k { kept += 1; } k }); vf::check(m.len() == kept && ze_drops() == n - kept, 614); drop(m); }
            5 => { let mut it = m.into_keys(); steps!(it); vf::check(it.len() == n - j, 601); drop(it); }
            6 => { let mut it = m.into_values(); let mut i = 0; while i < N { if i < j { vf::check(it.next().is_some(), 604); vf::check(ze_drops() == i + 1, 614); } i += 1; } drop(it); }
            _ => { m.retain(|_, _| false); vf::check(ze_drops() == n && m.is_empty(), 614);
                   let mut i = 0; while i < N { vf::check(m.insert(Ze::new(), ()).is_none() && m.len() == i + 1, 613); i += 1; } drop(m); }
        }
    }
    if n > 0 { vf::reach(1); } else { vf::reach(2); }
    vf::check(unsafe { ZE_DROPS == ZE_MADE }, 302);
}

// ------------------------------------------------------------------------------------------ zero-sized elements
/// zero-sized key and value (`Map<NE, (), N>`, `Set<NE, N>`, `NE` = a zero-sized key that is never equal to another):
/// all slots share one address, so an iterator that finds its end by comparing pointers sees an empty range.
macro_rules! zst_walk {
    ($mk:expr, $n:expr, $cap:expr) => {{
        let mut it = $mk;
        let mut seen = 0usize;
        let mut i = 0usize;
        while i <= $cap {
            let left = $n - seen;
            vf::check(it.len() == left, 601);
            vf::check(it.size_hint() == (left, Some(left)), 602);
            match it.next() { Some(_) => { vf::check(seen < $n, 604); seen += 1; } None => { vf::check(seen == $n, 604); } }
            i += 1;
        }
        vf::check(it.next().is_none(), 606);
        vf::check(seen == $n, 604);
    }};
}
/// W: 0 iter 1 keys 2 values 3 iter_mut 4 values_mut 5 Set::iter (+ count() and a cloned iterator where there is one)
pub fn c09_zst<const N: usize, const W: u8>() {
    let (mut m, n) = zst_map::<N>();
    let (s, sn) = zst_set::<N>();
    match W {
        0 => { zst_walk!(m.iter(), n, N); vf::check(m.iter().count() == n && m.iter().clone().count() == n, 605); vf::check((&m).into_iter().count() == n, 605); }
        1 => { zst_walk!(m.keys(), n, N); vf::check(m.keys().count() == n && m.keys().clone().len() == n, 605); }
        2 => { zst_walk!(m.values(), n, N); vf::check(m.values().count() == n, 605); }
        3 => { zst_walk!(m.iter_mut(), n, N); vf::check(m.iter_mut().count() == n, 605); vf::check((&mut m).into_iter().count() == n, 605); }
        4 => { zst_walk!(m.values_mut(), n, N); vf::check(m.values_mut().count() == n, 605); }
        _ => { zst_walk!(s.iter(), sn, N); vf::check(s.iter().count() == sn && (&s).into_iter().count() == sn, 605); }
    }
    if n + sn > 0 { vf::reach(1); } else { vf::reach(2); }
    vf::check(m.len() == n && s.len() == sn, 811);
}
/// W: 0 into_iter 1 into_keys 2 into_values 3 drain 4 Set::into_iter 5 Set::drain
pub fn c10_zst<const N: usize, const W: u8>() {
    let (mut m, n) = zst_map::<N>();
    let (mut s, sn) = zst_set::<N>();
    if n + sn > 0 { vf::reach(1); } else { vf::reach(2); }
    match W {
        0 => { zst_walk!(m.into_iter(), n, N); }
        1 => { zst_walk!(m.into_keys(), n, N); }
        2 => { zst_walk!(m.into_values(), n, N); }
        3 => {
            let j = vf::any_usize();
            { let mut d = m.drain(); vf::check(d.len() == n, 601); if j > 0 { vf::check(d.next().is_some() == (n >= 1), 604); } }
            vf::check(m.len() == 0 && m.is_empty(), 612);
            if N > 0 { vf::check(m.insert(NE, ()).is_none() && m.len() == 1, 613); zst_walk!(m.drain(), 1usize, N); vf::check(m.is_empty(), 612); }
        }
        4 => { zst_walk!(s.into_iter(), sn, N); }
        _ => {
            { let mut d = s.drain(); vf::check(d.len() == sn, 601); zst_walk!(d, sn, N); }
            vf::check(s.len() == 0, 612);
            if N > 0 { vf::check(s.insert(NE) && s.len() == 1, 613); }
        }
    }
}

harnesses! {
    c09_zst: [1, 0] [1, 1] [1, 2] [1, 3] [1, 4] [1, 5] [2, 0] [2, 1] [2, 2] [2, 3] [2, 4] [2, 5];
    c10_zst: [1, 0] [1, 1] [1, 2] [1, 3] [1, 4] [1, 5] [2, 0] [2, 1] [2, 2] [2, 3] [2, 4] [2, 5];
    c02_zst_drops: [1, 0] [1, 1] [1, 2] [1, 3] [1, 4] [1, 5] [1, 6] [1, 7] [1, 8] [1, 9] [2, 0] [2, 1] [2, 2] [2, 3] [2, 4] [2, 5] [2, 6] [2, 7] [2, 8] [2, 9];
    c09_iter: [0] [1] [2] [3];
    c09_keys: [0] [1] [2] [3];
    c09_values: [0] [1] [2] [3];
    c09_iter_mut: [0] [1] [2] [3];
    c09_values_mut: [0] [1] [2] [3];
    c09_set_iter: [0] [1] [2] [3];
    c09_defaults: [0] [2];
    c09_provided: [1] [2] [3];
    c09_set_provided: [1] [2] [3];
    c10_provided: [1, 0] [2, 0] [3, 0] [1, 1] [2, 1] [1, 2] [2, 2];
    c10_set_provided: [1] [2] [3];
    c10_drain_methods: [1] [2] [3];
    c10_set_drain_methods: [1] [2] [3];
    c10_into_iter: [0] [1] [2] [3];
    c10_into_keys: [0] [1] [2] [3];
    c10_into_values: [0] [1] [2] [3];
    c10_set_into_iter: [0] [1] [2] [3];
    c10_drain: [0] [1] [2] [3];
    c10_set_drain: [0] [1] [2] [3];
    @deep
    c09_zst: [0, 0] [0, 1] [0, 2] [0, 3] [0, 4] [0, 5] [3, 0] [3, 1] [3, 2] [3, 3] [3, 4] [3, 5];
    c10_zst: [0, 0] [0, 1] [0, 2] [0, 3] [0, 4] [0, 5] [3, 0] [3, 1] [3, 2] [3, 3] [3, 4] [3, 5];
    c02_zst_drops: [3, 0] [3, 1] [3, 2] [3, 3] [3, 4] [3, 5] [3, 6] [3, 7] [3, 8] [3, 9];
    c10_drain_methods: [4] [5];
    c10_set_drain_methods: [4] [5];
    c09_provided: [4];
    c09_set_provided: [4];
    c10_provided: [1, 3] [2, 3] [3, 1] [3, 2] [4, 0];
    c10_set_provided: [4];
    c09_iter: [4] [5];
    c09_keys: [4] [5];
    c09_values: [4] [5];
    c09_iter_mut: [4] [5];
    c09_values_mut: [4] [5];
    c09_set_iter: [4] [5];
    c10_into_iter: [4] [5];
    c10_into_keys: [4] [5];
    c10_into_values: [4] [5];
    c10_set_into_iter: [4] [5];
    c10_drain: [4] [5];
    c10_set_drain: [4] [5];
}
