//! Group `g_alg`: set algebra (C08) and extensional equality (C14) on plain `u8` elements.
//! ids 801 size_hint does not bracket the remaining count, 802 element multiplicity vs mathematical result, 803 total count,
//! 804 yielded reference not into the left operand, 805 fold differs from stepping, 806 count() differs, 807 is_subset,
//! 808 is_superset, 809 is_disjoint, 810 `-` operator result, 811 operand changed, 820 eq vs model, 821 eq not symmetric, 822 eq not reflexive
use crate::model::*;
use crate::vf;
use micromap::{Map, Set};



#[derive(Clone, Copy, PartialEq)]
pub enum Op { Union, Inter, Diff, Sym }
fn member<const N: usize, const M: usize>(op: Op, q: u8, a: &Model<N>, b: &Model<M>) -> bool {
    match op {
        Op::Union => a.has(q) || b.has(q),
        Op::Inter => a.has(q) && b.has(q),
        Op::Diff => a.has(q) && !b.has(q),
        Op::Sym => a.has(q) != b.has(q),
    }
}
fn size<const N: usize, const M: usize>(op: Op, a: &Model<N>, b: &Model<M>) -> usize {
    let mut c = 0;
    let mut i = 0;
    while i < N { if i < a.n && member(op, a.keys[i], a, b) { c += 1; } i += 1; }
    let mut i = 0;
    while i < M { if i < b.n && !a.has(b.keys[i]) && member(op, b.keys[i], a, b) { c += 1; } i += 1; }
    c
}

/// checks shared by all lazy set-algebra iterators
macro_rules! lazy_checks {
    ($mk:expr, $op:expr, $a:expr, $b:expr, $am:expr, $bm:expr, $cap:expr, $left_refs:expr) => {{
        let want_total = size($op, &$am, &$bm);
        let q = vf::any_u8();
        let j = vf::any_usize(); // prefix length after which size_hint is examined
        let mut it = $mk;
        let (mut cnt, mut total) = (0usize, 0usize);
        let mut acc_step: u32 = 7;
        // phase 0: a symbolic prefix of j items; then size_hint is examined once; phase 1: the rest
        let mut phase = 0;
        while phase < 2 {
            let mut i = 0usize;
            while i <= $cap {
                if phase == 1 || i < j {
                    match it.next() {
                        Some(x) => {
                            total += 1;
                            if *x == q { cnt += 1; }
                            acc_step = acc_step.rotate_left(3) ^ (*x as u32);
                            vf::check(member($op, *x, &$am, &$bm), 802);
                            if $left_refs { vf::check(vf::ptr_within(x as *const u8, &$a), 804); }
                            else { vf::check(vf::ptr_within(x as *const u8, &$a) || vf::ptr_within(x as *const u8, &$b), 804); }
                        }
                        None => {}
                    }
                }
                i += 1;
            }
            if phase == 0 {
                let (lo, hi) = it.size_hint();
                let rest = it.clone().count();
                vf::check(lo <= rest && match hi { Some(h) => rest <= h, None => true }, 801);
                vf::check(total + rest == want_total, 806);
            }
            phase += 1;
        }
        vf::check(it.next().is_none(), 606);
        vf::check(total == want_total, 803);
        vf::check(cnt == member($op, q, &$am, &$bm) as usize, 802);
        let _ = acc_step;
        if want_total > 0 { vf::reach(1); } else { vf::reach(2); }
        same_u8_set(&$a, &$am);
        same_u8_set(&$b, &$bm);
    }};
}

/// fold visits exactly the sequence that stepping with next yields -- the same element OBJECTS (addresses), in the same
/// order -- and count() agrees
macro_rules! fold_checks {
    ($mk:expr, $op:expr, $am:expr, $bm:expr, $cap:expr) => {{
        let want_total = size($op, &$am, &$bm);
        let mut it = $mk;
        let mut seq = [0usize; 16];
        let mut total = 0usize;
        let mut i = 0usize;
        while i <= $cap {
            if let Some(x) = it.next() { if total < 16 { seq[total] = x as *const u8 as usize; } total += 1; }
            i += 1;
        }
        vf::check(total == want_total, 803);
        let (fseq, ftotal) = $mk.fold(([0usize; 16], 0usize), |(mut s, n), x| { if n < 16 { s[n] = x as *const u8 as usize; } (s, n + 1) });
        vf::check(ftotal == total, 805);
        let mut i = 0usize;
        while i < $cap { if i < total { vf::check(fseq[i] == seq[i], 805); } i += 1; }
        vf::check($mk.count() == want_total, 806);
        if want_total > 0 { vf::reach(1); } else { vf::reach(2); }
    }};
}

pub fn c08_union<const N: usize, const M: usize>() {
    let (a, am) = any_u8_set::<N>();
    let (b, bm) = any_u8_set::<M>();
    lazy_checks!(a.union(&b), Op::Union, a, b, am, bm, N + M, false);
}
pub fn c08_intersection<const N: usize, const M: usize>() {
    let (a, am) = any_u8_set::<N>();
    let (b, bm) = any_u8_set::<M>();
    lazy_checks!(a.intersection(&b), Op::Inter, a, b, am, bm, N + M, true);
}
pub fn c08_difference<const N: usize, const M: usize>() {
    let (a, am) = any_u8_set::<N>();
    let (b, bm) = any_u8_set::<M>();
    lazy_checks!(a.difference(&b), Op::Diff, a, b, am, bm, N + M, true);
}
pub fn c08_symdiff<const N: usize, const M: usize>() {
    let (a, am) = any_u8_set::<N>();
    let (b, bm) = any_u8_set::<M>();
    lazy_checks!(a.symmetric_difference(&b), Op::Sym, a, b, am, bm, N + M, false);
}
pub fn c08_union_fold<const N: usize, const M: usize>() {
    let (a, am) = any_u8_set::<N>();
    let (b, bm) = any_u8_set::<M>();
    fold_checks!(a.union(&b), Op::Union, am, bm, N + M);
}
pub fn c08_intersection_fold<const N: usize, const M: usize>() {
    let (a, am) = any_u8_set::<N>();
    let (b, bm) = any_u8_set::<M>();
    fold_checks!(a.intersection(&b), Op::Inter, am, bm, N + M);
}
pub fn c08_difference_fold<const N: usize, const M: usize>() {
    let (a, am) = any_u8_set::<N>();
    let (b, bm) = any_u8_set::<M>();
    fold_checks!(a.difference(&b), Op::Diff, am, bm, N + M);
}
pub fn c08_symdiff_fold<const N: usize, const M: usize>() {
    let (a, am) = any_u8_set::<N>();
    let (b, bm) = any_u8_set::<M>();
    fold_checks!(a.symmetric_difference(&b), Op::Sym, am, bm, N + M);
}

/// provided methods of the lazy iterators (an implementation may override them): nth / last / count / min / max against
/// plain stepping of a clone, after a symbolic prefix
macro_rules! lazy_provided {
    ($mk:expr, $cap:expr, $which:expr) => {{
        let (j, k, which) = (vf::any_usize(), vf::any_usize(), $which);
        vf::assume(k <= $cap);
        let mut a = $mk;
        let mut i = 0usize;
        while i < $cap { if i < j { let _ = a.next(); } i += 1; }
        let mut b = a.clone();
        match which {
            0 => {
                vf::reach(1);
                let x = a.nth(k).map(|r| r as *const u8 as usize);
                let mut i = 0usize;
                while i < $cap { if i < k { let _ = b.next(); } i += 1; }
                let y = b.next().map(|r| r as *const u8 as usize);
                vf::check(x == y, 812);
                let mut i = 0usize;
                while i <= $cap { vf::check(a.next().map(|r| r as *const u8 as usize) == b.next().map(|r| r as *const u8 as usize), 812); i += 1; }
            }
            1 => {
                vf::reach(2);
                let x = a.last().map(|r| r as *const u8 as usize);
                let mut y = None;
                let mut i = 0usize;
                while i <= $cap { if let Some(r) = b.next() { y = Some(r as *const u8 as usize); } i += 1; }
                vf::check(x == y, 812);
            }
            2 => {
                vf::reach(3);
                let c = a.count();
                let mut n = 0usize;
                let mut i = 0usize;
                while i <= $cap { if b.next().is_some() { n += 1; } i += 1; }
                vf::check(c == n, 806);
            }
            _ => {
                vf::reach(4);
                let (mx, mn) = (a.clone().max().copied(), a.min().copied());
                let (mut wx, mut wn): (Option<u8>, Option<u8>) = (None, None);
                let mut i = 0usize;
                while i <= $cap {
                    if let Some(r) = b.next() { wx = Some(match wx { Some(m) if m > *r => m, _ => *r }); wn = Some(match wn { Some(m) if m < *r => m, _ => *r }); }
                    i += 1;
                }
                vf::check(mx == wx && mn == wn, 812);
            }
        }
    }};
}
pub fn c08_provided<const N: usize, const M: usize, const OP: u8>() {
    let (a, _am) = any_u8_set::<N>();
    let (b, _bm) = any_u8_set::<M>();
    // OP = 4 * operation + provided method: one query per pair
    match OP / 4 {
        0 => lazy_provided!(a.union(&b), N + M, OP % 4),
        1 => lazy_provided!(a.intersection(&b), N + M, OP % 4),
        2 => lazy_provided!(a.difference(&b), N + M, OP % 4),
        _ => lazy_provided!(a.symmetric_difference(&b), N + M, OP % 4),
    }
}

/// `&a - &b` builds a new set equal to the difference
pub fn c08_sub<const N: usize, const M: usize>() {
    let (a, am) = any_u8_set::<N>();
    let (b, bm) = any_u8_set::<M>();
    let d: Set<u8, N> = &a - &b;
    let q = vf::any_u8();
    vf::check(d.contains(&q) == member(Op::Diff, q, &am, &bm), 810);
    vf::check(d.len() == size(Op::Diff, &am, &bm), 810);
    let (mut cnt, mut total) = (0usize, 0usize);
    for k in d.iter() { total += 1; if *k == q { cnt += 1; } }
    vf::check(total == d.len() && cnt <= 1, 810);
    if d.len() > 0 { vf::reach(1); } else { vf::reach(2); }
    same_u8_set(&a, &am);
    same_u8_set(&b, &bm);
}

/// difference_ref on sets of references into a symbolic universe
pub fn c08_difference_ref<const N: usize, const M: usize>() {
    let mut uni = [0u8; 6];
    let mut i = 0;
    while i < 6 { uni[i] = vf::any_u8(); i += 1; }
    let mut a: Set<&u8, N> = empty_set();
    let mut b: Set<&u8, M> = empty_set();
    let (mut am, mut bm) = (Model::<N>::new(), Model::<M>::new());
    let mut i = 0;
    while i < N {
        let ix = vf::any_usize();
        let take = vf::any_bool();
        if take { vf::assume(ix < 6 && !am.has(uni[ix])); am.insert(uni[ix], 0, 0, 0); vf::check(a.insert(&uni[ix]), 100); }
        i += 1;
    }
    let mut i = 0;
    while i < M {
        let ix = vf::any_usize();
        let take = vf::any_bool();
        if take { vf::assume(ix < 6 && !bm.has(uni[ix])); bm.insert(uni[ix], 0, 0, 0); vf::check(b.insert(&uni[ix]), 100); }
        i += 1;
    }
    let want_total = size(Op::Diff, &am, &bm);
    let q = vf::any_u8();
    let j = vf::any_usize();
    let mut it = a.difference_ref(&b);
    let (mut cnt, mut total) = (0usize, 0usize);
    let mut acc_step: u32 = 7;
    let mut phase = 0;
    while phase < 2 {
        let mut i = 0usize;
        while i <= N {
            if phase == 1 || i < j {
                if let Some(x) = it.next() {
                    total += 1;
                    if *x == q { cnt += 1; }
                    acc_step = acc_step.rotate_left(3) ^ (*x as u32);
                    vf::check(vf::ptr_within(x as *const u8, &uni), 804);
                }
            }
            i += 1;
        }
        if phase == 0 {
            let (lo, hi) = it.size_hint();
            let rest = it.clone().count();
            vf::check(lo <= rest && match hi { Some(h) => rest <= h, None => true }, 801);
        }
        phase += 1;
    }
    vf::check(it.next().is_none(), 606);
    vf::check(total == want_total, 803);
    vf::check(cnt == member(Op::Diff, q, &am, &bm) as usize, 802);
    let acc_fold = a.difference_ref(&b).fold(7u32, |acc, x| acc.rotate_left(3) ^ (*x as u32));
    vf::check(acc_fold == acc_step, 805);
    if want_total > 0 { vf::reach(1); } else { vf::reach(2); }
    vf::check(a.len() == am.n && b.len() == bm.n, 811);
}

fn same_bytes(buf: &[u8; 3], a: (usize, usize), b: (usize, usize)) -> bool {
    if a.1 - a.0 != b.1 - b.0 { return false; }
    let mut i = 0;
    while i < 3 { if i < a.1 - a.0 && buf[a.0 + i] != buf[b.0 + i] { return false; } i += 1; }
    true
}

/// difference_ref on sets of *unsized* references: `Set<&[u8], N>` whose elements are solver-chosen sub-slices `&buf[s..e]`
/// of ONE solver-chosen buffer, so that two elements may start at the same address with different lengths, overlap, or be
/// equal in content at different addresses.  Membership is decided by content (`<[u8] as PartialEq>`), never by address.
pub fn c08_difference_ref_slices<const N: usize, const M: usize>() {
    let mut buf = [0u8; 3];
    let mut i = 0;
    while i < 3 { buf[i] = vf::any_u8(); i += 1; }
    let mut a: Set<&[u8], N> = empty_set();
    let mut b: Set<&[u8], M> = empty_set();
    let (mut ae, mut be) = ([(0usize, 0usize); N], [(0usize, 0usize); M]);
    let (mut na, mut nb) = (0usize, 0usize);
    let mut i = 0;
    while i < N {
        let (s, e, take) = (vf::any_usize(), vf::any_usize(), vf::any_bool());
        if take {
            vf::assume(s <= e && e <= 3);
            let mut j = 0;
            while j < N { if j < na { vf::assume(!same_bytes(&buf, ae[j], (s, e))); } j += 1; }
            ae[na] = (s, e); na += 1;
            vf::check(a.insert(&buf[s..e]), 100);
        }
        i += 1;
    }
    let mut i = 0;
    while i < M {
        let (s, e, take) = (vf::any_usize(), vf::any_usize(), vf::any_bool());
        if take {
            vf::assume(s <= e && e <= 3);
            let mut j = 0;
            while j < M { if j < nb { vf::assume(!same_bytes(&buf, be[j], (s, e))); } j += 1; }
            be[nb] = (s, e); nb += 1;
            vf::check(b.insert(&buf[s..e]), 100);
        }
        i += 1;
    }
    // the mathematical result, by content
    let mut inb = [false; N];
    let mut want_total = 0usize;
    let mut i = 0;
    while i < N {
        if i < na {
            let mut j = 0;
            while j < M { if j < nb && same_bytes(&buf, ae[i], be[j]) { inb[i] = true; } j += 1; }
            if !inb[i] { want_total += 1; }
        }
        i += 1;
    }
    let p = vf::any_usize();   // probe: one element of a, identified by address and length
    vf::assume(N == 0 || p < N);
    let j = vf::any_usize();
    let base = buf.as_ptr() as usize;
    let mut it = a.difference_ref(&b);
    let (mut cnt, mut total) = (0usize, 0usize);
    let mut acc_step: u32 = 7;
    let mut phase = 0;
    while phase < 2 {
        let mut i = 0usize;
        while i <= N {
            if phase == 1 || i < j {
                if let Some(x) = it.next() {
                    total += 1;
                    let (xs, xl) = (x.as_ptr() as usize - base, x.len());
                    if N > 0 && p < na && xs == ae[p].0 && xl == ae[p].1 - ae[p].0 { cnt += 1; }
                    // every yielded item is one of the left operand's own elements (same address, same length) ...
                    let mut k = 0;
                    let mut own = false;
                    while k < N { if k < na && xs == ae[k].0 && xl == ae[k].1 - ae[k].0 && !inb[k] { own = true; } k += 1; }
                    vf::check(own, 804);
                    acc_step = acc_step.rotate_left(3) ^ ((xs * 4 + xl) as u32);
                }
            }
            i += 1;
        }
        if phase == 0 {
            let (lo, hi) = it.size_hint();
            // DifferenceRef over an unsized T is not Clone: count the rest on a second iterator advanced equally far
            let mut it2 = a.difference_ref(&b);
            let mut sk = 0;
            while sk < N { if sk < total { let _ = it2.next(); } sk += 1; }
            let rest = it2.count();
            vf::check(lo <= rest && match hi { Some(h) => rest <= h, None => true }, 801);
        }
        phase += 1;
    }
    vf::check(it.next().is_none(), 606);
    vf::check(total == want_total, 803);
    if N > 0 && p < na { vf::check(cnt == (!inb[p]) as usize, 802); }
    let acc_fold = a.difference_ref(&b).fold(7u32, |acc, x| acc.rotate_left(3) ^ (((x.as_ptr() as usize - base) * 4 + x.len()) as u32));
    vf::check(acc_fold == acc_step, 805);
    if want_total > 0 { vf::reach(1); } else { vf::reach(2); }
    if na > want_total { vf::reach(3); }
    vf::check(a.len() == na && b.len() == nb, 811);
}

pub fn c08_predicates<const N: usize, const M: usize>() {
    let (a, am) = any_u8_set::<N>();
    let (b, bm) = any_u8_set::<M>();
    let (mut sub, mut sup, mut dis) = (true, true, true);
    let mut i = 0;
    while i < N { if i < am.n { if !bm.has(am.keys[i]) { sub = false; } else { dis = false; } } i += 1; }
    let mut i = 0;
    while i < M { if i < bm.n && !am.has(bm.keys[i]) { sup = false; } i += 1; }
    vf::check(a.is_subset(&b) == sub, 807);
    vf::check(a.is_superset(&b) == sup, 808);
    vf::check(a.is_disjoint(&b) == dis, 809);
    vf::check(b.is_disjoint(&a) == dis, 809);
    if sub { vf::reach(1); } else { vf::reach(2); }
    if dis { vf::reach(3); } else { vf::reach(4); }
    same_u8_set(&a, &am);
    same_u8_set(&b, &bm);
}

// ------------------------------------------------------------------------------------------ C14
fn model_eq<const N: usize, const M: usize>(a: &Model<N>, b: &Model<M>, vals: bool) -> bool {
    if a.n != b.n { return false; }
    let mut i = 0;
    while i < N {
        if i < a.n {
            match b.find(a.keys[i]) { Some(j) => { if vals && b.vals[j] != a.vals[i] { return false; } } None => return false }
        }
        i += 1;
    }
    true
}

pub fn c14_map<const N: usize, const M: usize>() {
    let (a, am) = any_u8_map::<N>();
    let (b, bm) = any_u8_map::<M>();
    let want = model_eq(&am, &bm, true);
    vf::check((a == b) == want, 820);
    vf::check((b == a) == want, 821);
    vf::check((a != b) == !want && (b != a) == !want, 820);
    vf::check(a == a && b == b && !(a != a), 822);
    if want { vf::reach(1); } else { vf::reach(2); }
    same_u8_map(&a, &am);
    same_u8_map(&b, &bm);
}
/// values / elements whose `==` is only a PARTIAL equivalence (like f32 NaN): "equal exactly when they hold the same keys
/// with equal values" then makes a container holding such a value unequal even to itself and to its clone -- the answer
/// may not depend on whether the two operands are the same object
#[derive(Clone, Copy)]
pub struct NR(pub u8);
impl PartialEq for NR { #[inline(always)] fn eq(&self, o: &NR) -> bool { self.0 == o.0 && self.0 < 0xF0 } }
pub fn c14_partial<const N: usize>() {
    let (a, am) = any_u8_map::<N>();
    let mut m: Map<u8, NR, N> = empty_map();
    let mut s: Set<NR, N> = empty_set();
    let (mut vals_ok, mut keys_ok) = (true, true);
    for (k, v) in a.iter() {
        vf::check(m.insert(*k, NR(*v)).is_none(), 100);
        vf::check(s.insert(NR(*k)), 100);
        if *v >= 0xF0 { vals_ok = false; }
        if *k >= 0xF0 { keys_ok = false; }
    }
    vf::check(m.len() == am.n && s.len() == am.n, 100);
    let (mr, sr) = (&m, &s);
    vf::check((m == m) == vals_ok && (mr == mr) == vals_ok && (m != m) == !vals_ok, 822);
    vf::check((s == s) == keys_ok && (sr == sr) == keys_ok && (s != s) == !keys_ok, 822);
    let (mc, sc) = (m.clone(), s.clone());
    vf::check((m == mc) == vals_ok && (mc == m) == vals_ok, 820);
    vf::check((s == sc) == keys_ok && (sc == s) == keys_ok, 820);
    if vals_ok && keys_ok { vf::reach(1); } else { vf::reach(2); }
    // a ZERO-SIZED value type whose `==` still has an answer of its own (here: a solver-chosen flag, constant during the
    // comparison): "carries no data" does not mean "always equal"
    let mut z: Map<u8, Zf, N> = empty_map();
    for (k, _) in a.iter() { vf::check(z.insert(*k, Zf).is_none(), 100); }
    let zc = z.clone();
    let f = vf::any_bool();
    unsafe { ZF_EQ = f; }
    let want = f || am.n == 0;
    vf::check((z == zc) == want && (zc == z) == want && (z != zc) == !want && (z == z) == want, 820);
    if f { vf::reach(3); } else { vf::reach(4); }
}
static mut ZF_EQ: bool = true;
#[derive(Clone, Copy)]
pub struct Zf;
impl PartialEq for Zf { #[inline(never)] fn eq(&self, _: &Zf) -> bool { unsafe { ZF_EQ } } }
pub fn c14_set<const N: usize, const M: usize>() {
    let (a, am) = any_u8_set::<N>();
    let (b, bm) = any_u8_set::<M>();
    let want = model_eq(&am, &bm, false);
    vf::check((a == b) == want, 820);
    vf::check((b == a) == want, 821);
    vf::check((a != b) == !want && (b != a) == !want, 820);
    vf::check(a == a && b == b, 822);
    if want { vf::reach(1); } else { vf::reach(2); }
    same_u8_set(&a, &am);
    same_u8_set(&b, &bm);
}

harnesses! {
    c08_union: [0, 0] [1, 1] [2, 2] [3, 3] [1, 3] [3, 1] [0, 2] [2, 0];
    c08_intersection: [0, 0] [1, 1] [2, 2] [3, 3] [1, 3] [3, 1] [0, 2] [2, 0];
    c08_difference: [0, 0] [1, 1] [2, 2] [3, 3] [1, 3] [3, 1] [0, 2] [2, 0];
    c08_symdiff: [0, 0] [1, 1] [2, 2] [3, 3] [1, 3] [3, 1] [0, 2] [2, 0];
    c08_union_fold: [0, 0] [1, 1] [2, 2] [3, 3] [1, 3] [3, 1] [0, 2] [2, 0];
    c08_intersection_fold: [0, 0] [1, 1] [2, 2] [3, 3] [1, 3] [3, 1] [0, 2] [2, 0];
    c08_difference_fold: [0, 0] [1, 1] [2, 2] [3, 3] [1, 3] [3, 1] [0, 2] [2, 0];
    c08_symdiff_fold: [0, 0] [1, 1] [2, 2] [3, 3] [1, 3] [3, 1] [0, 2] [2, 0];
    c08_provided: [2, 2, 4] [2, 2, 5] [2, 2, 6] [2, 2, 7] [2, 2, 8] [2, 2, 9] [2, 2, 10] [2, 2, 11] [1, 1, 0] [1, 1, 1] [1, 1, 2] [1, 1, 3] [1, 1, 12] [1, 1, 13] [1, 1, 14] [1, 1, 15] [2, 1, 0] [2, 1, 1] [2, 1, 2] [2, 1, 13];
    c08_sub: [0, 0] [1, 1] [2, 2] [3, 3] [1, 3] [3, 1];
    c08_difference_ref: [1, 1] [2, 2] [3, 2] [2, 3];
    c08_difference_ref_slices: [1, 1] [2, 1];
    c08_predicates: [0, 0] [1, 1] [2, 2] [3, 3] [1, 3] [3, 1] [0, 2] [2, 0];
    c14_map: [0, 0] [1, 1] [2, 2] [3, 3] [1, 3] [3, 1] [0, 2] [2, 0] [2, 3];
    c14_partial: [1] [2] [3];
    c14_set: [0, 0] [1, 1] [2, 2] [3, 3] [1, 3] [3, 1] [0, 2] [2, 0] [2, 3];
    @deep
    c14_partial: [4];
    c08_union: [4, 4] [4, 2] [2, 4];
    c08_intersection: [4, 4] [4, 2] [2, 4];
    c08_difference: [4, 4] [4, 2] [2, 4];
    c08_symdiff: [4, 4] [4, 2] [2, 4];
    c08_union_fold: [4, 4] [4, 2] [2, 4];
    c08_intersection_fold: [4, 4] [4, 2] [2, 4];
    c08_difference_fold: [4, 4] [4, 2] [2, 4];
    c08_symdiff_fold: [4, 4] [4, 2] [2, 4];
    c08_provided: [3, 2, 4] [3, 2, 5] [3, 2, 6] [3, 2, 7] [3, 2, 8] [3, 2, 9] [3, 2, 10] [3, 2, 11] [1, 2, 0] [1, 2, 1] [1, 2, 2] [1, 2, 3] [1, 2, 12] [1, 2, 13] [1, 2, 14] [1, 2, 15] [2, 1, 3] [2, 1, 12] [2, 1, 14] [2, 1, 15] [2, 2, 0] [2, 2, 1] [2, 2, 2] [2, 2, 13];
    c08_sub: [4, 4] [4, 2] [2, 4];
    c08_difference_ref: [3, 3] [4, 2];
    c08_predicates: [4, 4] [4, 2] [2, 4];
    c14_map: [4, 4] [4, 1] [1, 4] [5, 5];
    c14_set: [4, 4] [4, 1] [1, 4] [5, 5];
}
