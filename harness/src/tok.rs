//! Ledger tokens: make ownership observable.  Every `Tok` has a serial; a static ledger records
//! never / live / dead per serial and every user callback (`eq`, `clone`, `drop`, `borrow`) asserts
//! that the object it is handed is live.  A double drop, a drop of uninitialised memory or a read of
//! a vacated slot therefore fails an ordinary assertion.
#![allow(static_mut_refs, dead_code)]
use crate::vf;
use core::borrow::Borrow;

pub const MAXTOK: usize = 40;
pub const FREE: u16 = 0xFFFF; // serial of a free-standing borrowed key
pub static mut STATE: [u8; MAXTOK] = [0; MAXTOK]; // 0 never, 1 live, 2 dead
pub static mut CREATED: usize = 0;
pub static mut DROPPED: usize = 0;
pub static mut CLONES_OF: [u8; MAXTOK] = [0; MAXTOK];
pub static mut CLONED_FROM: [u16; MAXTOK] = [FREE; MAXTOK];
pub static mut FAULT_AT: usize = usize::MAX;
pub static mut CALLS: usize = 0;
pub static mut EQS: usize = 0;
/// lying-Eq oracle (C17): when set every comparison returns a fresh symbolic boolean
pub static mut LIAR: bool = false;

pub fn reset() {
    unsafe {
        STATE = [0; MAXTOK];
        CREATED = 0;
        DROPPED = 0;
        CLONES_OF = [0; MAXTOK];
        CLONED_FROM = [FREE; MAXTOK];
        FAULT_AT = usize::MAX;
        CALLS = 0;
        EQS = 0;
        LIAR = false;
    }
}

/// every user callback passes through here; the `FAULT_AT`-th one panics (C04)
#[inline(always)]
pub fn fault_point() {
    unsafe {
        let c = CALLS;
        CALLS = c.wrapping_add(1);
        if c == FAULT_AT {
            vf::raise();
        }
    }
}
/// arm the injector: the `k`-th callback from now on panics (k symbolic in C04 harnesses)
pub fn arm(k: usize) { unsafe { FAULT_AT = CALLS.wrapping_add(k); } }
pub fn disarm() { unsafe { FAULT_AT = usize::MAX; } }
pub fn calls() -> usize { unsafe { CALLS } }

#[inline(always)]
pub fn live(serial: u16) -> bool { unsafe { (serial as usize) < MAXTOK && STATE[serial as usize] == 1 } }
#[inline(always)]
pub fn dead(serial: u16) -> bool { unsafe { (serial as usize) < MAXTOK && STATE[serial as usize] == 2 } }
pub fn created() -> usize { unsafe { CREATED } }
pub fn dropped() -> usize { unsafe { DROPPED } }
pub fn clones_of(serial: u16) -> u8 { unsafe { if (serial as usize) < MAXTOK { CLONES_OF[serial as usize] } else { 0 } } }
pub fn cloned_from(serial: u16) -> u16 { unsafe { if (serial as usize) < MAXTOK { CLONED_FROM[serial as usize] } else { FREE } } }
/// everything created has been destroyed (exactly once: a second destruction fails check 901)
pub fn balanced() -> bool { unsafe { DROPPED == CREATED } }
pub fn no_excess() -> bool { unsafe { DROPPED <= CREATED } }

/// borrowed form of a key: compares by `key`; remembers the serial of the `Tok` it lives in
#[repr(C)]
pub struct BKey { pub serial: u16, pub key: u8, pub tag: u8 }
impl BKey { pub fn free(key: u8) -> BKey { BKey { serial: FREE, key, tag: 0 } } }
impl PartialEq for BKey {
    #[inline(always)]
    fn eq(&self, o: &BKey) -> bool {
        vf::check((self.serial == FREE || live(self.serial)) && (o.serial == FREE || live(o.serial)), 903);
        unsafe { EQS += 1; }
        fault_point();
        if unsafe { LIAR } { return vf::any_bool(); }
        self.key == o.key
    }
}
impl Eq for BKey {}

/// 4 bytes: serial, key class, tag (the tag distinguishes equal keys and marks mutations; `==` ignores it)
#[repr(transparent)]
pub struct Tok { pub bk: BKey }
impl Tok {
    #[inline(always)]
    pub fn new(key: u8) -> Tok { Tok::tagged(key, 0) }
    #[inline(always)]
    pub fn tagged(key: u8, tag: u8) -> Tok {
        unsafe {
            let s = CREATED;
            vf::assume(s < MAXTOK);
            CREATED = s + 1;
            STATE[s] = 1;
            Tok { bk: BKey { serial: s as u16, key, tag } }
        }
    }
    #[inline(always)] pub fn key(&self) -> u8 { self.bk.key }
    #[inline(always)] pub fn serial(&self) -> u16 { self.bk.serial }
    #[inline(always)] pub fn tag(&self) -> u8 { self.bk.tag }
    #[inline(always)] pub fn set_tag(&mut self, t: u8) { self.bk.tag = t }
}
impl Drop for Tok {
    #[inline(always)]
    fn drop(&mut self) {
        let s = self.bk.serial;
        vf::check(live(s), 901); // double drop / drop of garbage
        unsafe {
            if (s as usize) < MAXTOK { STATE[s as usize] = 2; }
            DROPPED += 1;
        }
        fault_point();
    }
}
impl Clone for Tok {
    #[inline(always)]
    fn clone(&self) -> Tok {
        let s = self.bk.serial;
        vf::check(live(s), 902);
        fault_point();
        let t = Tok::tagged(self.bk.key, self.bk.tag);
        unsafe {
            if (s as usize) < MAXTOK { CLONES_OF[s as usize] += 1; }
            CLONED_FROM[t.bk.serial as usize] = s;
        }
        t
    }
}
impl PartialEq for Tok {
    #[inline(always)]
    fn eq(&self, o: &Tok) -> bool {
        vf::check(live(self.bk.serial) && live(o.bk.serial), 903);
        unsafe { EQS += 1; }
        fault_point();
        if unsafe { LIAR } { return vf::any_bool(); }
        self.bk.key == o.bk.key
    }
}
impl Eq for Tok {}
impl Borrow<BKey> for Tok {
    #[inline(always)]
    fn borrow(&self) -> &BKey {
        vf::check(live(self.bk.serial), 905);
        &self.bk
    }
}
impl Default for Tok {
    fn default() -> Tok { fault_point(); Tok::tagged(0, 0xDF) }
}

/// A token WITHOUT drop glue whose `Clone` is observable (C15: "exactly one clone per element" must hold for such
/// types too -- `needs_drop::<T>() == false` does not make a type plain data).
pub static mut CCLONES: usize = 0;
pub struct CTok { pub key: u8, pub gen: u8 }
impl CTok { pub fn new(key: u8) -> CTok { CTok { key, gen: 0 } } }
impl Clone for CTok {
    fn clone(&self) -> CTok { unsafe { CCLONES += 1; } CTok { key: self.key, gen: self.gen.wrapping_add(1) } }
}
impl PartialEq for CTok { fn eq(&self, o: &CTok) -> bool { self.key == o.key } }
impl Eq for CTok {}
