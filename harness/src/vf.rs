//! `vf`: the verification vocabulary shared by every harness.  One harness source, three back ends:
//!  * feature `cbmc`  – engine L: primitives are `extern "C"` symbols defined in engine/prelude.c
//!  * `cfg(kani)`     – engine K
//!  * feature `replay`– native re-execution of a solver counterexample (vector of logged values)
#![allow(dead_code)]

#[cfg(feature = "cbmc")]
mod imp {
    extern "C" {
        fn vf_nondet_u8() -> u8;
        fn vf_nondet_u16() -> u16;
        fn vf_nondet_usize() -> usize;
        fn vf_assume_c(c: bool);
        fn vf_check_c(c: bool, id: u32);
        fn vf_reach_c(id: u32);
        fn vf_havoc_c(p: *mut u8, n: usize);
        fn vf_ptr_within_c(p: *const u8, len: usize, base: *const u8, size: usize) -> bool;
        fn vf_panics_c() -> u32;
    }
    extern "C-unwind" {
        fn vf_raise_c() -> !;
        fn vf_try_c(f: unsafe extern "C-unwind" fn(*mut u8), data: *mut u8) -> bool;
    }
    #[inline(always)] pub fn any_u8() -> u8 { unsafe { vf_nondet_u8() } }
    #[inline(always)] pub fn any_u16() -> u16 { unsafe { vf_nondet_u16() } }
    #[inline(always)] pub fn any_usize() -> usize { unsafe { vf_nondet_usize() } }
    #[inline(always)] pub fn assume(c: bool) { unsafe { vf_assume_c(c) } }
    #[inline(always)] pub fn check(c: bool, id: u32) { unsafe { vf_check_c(c, id) } }
    #[inline(always)] pub fn reach(id: u32) { unsafe { vf_reach_c(id) } }
    #[inline(always)] pub fn raise() -> ! { unsafe { vf_raise_c() } }
    #[inline(always)] pub unsafe fn havoc(p: *mut u8, n: usize) { vf_havoc_c(p, n) }
    #[inline(always)] pub fn ptr_within_raw(p: *const u8, len: usize, base: *const u8, size: usize) -> bool {
        unsafe { vf_ptr_within_c(p, len, base, size) }
    }
    /// number of panic entry points hit so far (engine L only; 0 elsewhere)
    #[inline(always)] pub fn panics() -> u32 { unsafe { vf_panics_c() } }
    pub const COUNTS_PANICS: bool = true;
    unsafe extern "C-unwind" fn tramp<F: FnOnce()>(p: *mut u8) {
        let f = (*(p as *mut Option<F>)).take();
        if let Some(f) = f { f() }
    }
    /// runs `f`; returns true if it panicked (the panic is consumed)
    #[inline(always)]
    pub fn catch<F: FnOnce()>(f: F) -> bool {
        let mut slot = Some(f);
        let r = unsafe { vf_try_c(tramp::<F>, &mut slot as *mut Option<F> as *mut u8) };
        // a closure that was never run (cannot happen) or whose captures survive is dropped here
        core::mem::forget(slot);
        r
    }
    pub const CAN_CATCH: bool = true;
}

#[cfg(kani)]
mod imp {
    #[inline(always)] pub fn any_u8() -> u8 { kani::any() }
    #[inline(always)] pub fn any_u16() -> u16 { kani::any() }
    #[inline(always)] pub fn any_usize() -> usize { kani::any() }
    #[inline(always)] pub fn assume(c: bool) { kani::assume(c) }
    #[inline(always)] pub fn check(c: bool, _id: u32) { assert!(c) }
    #[inline(always)] pub fn reach(_id: u32) { kani::cover!(true) }
    pub fn raise() -> ! { panic!("injected") }
    pub unsafe fn havoc(p: *mut u8, n: usize) { let mut i = 0; while i < n { *p.add(i) = kani::any(); i += 1; } }
    pub fn ptr_within_raw(p: *const u8, len: usize, base: *const u8, size: usize) -> bool {
        let (p, b) = (p as usize, base as usize);
        p >= b && p + len <= b + size
    }
    pub fn panics() -> u32 { 0 }
    pub const COUNTS_PANICS: bool = false;
    /// Kani cannot unwind: a panic inside `f` ends the path as a failed check.
    pub fn catch<F: FnOnce()>(f: F) -> bool { f(); false }
    pub const CAN_CATCH: bool = false;
}

#[cfg(all(feature = "replay", not(kani)))]
mod imp {
    extern crate std;
    use std::cell::RefCell;
    use std::vec::Vec;
    std::thread_local! {
        pub static VEC: RefCell<(Vec<u64>, usize)> = RefCell::new((Vec::new(), 0));
        pub static FAILED: RefCell<Vec<u32>> = RefCell::new(Vec::new());
        pub static OBS: RefCell<Vec<u64>> = RefCell::new(Vec::new());
    }
    fn next() -> u64 {
        VEC.with(|v| { let mut v = v.borrow_mut(); let i = v.1; v.1 += 1; v.0.get(i).copied().unwrap_or(0) })
    }
    pub fn set_vector(v: Vec<u64>) { VEC.with(|x| *x.borrow_mut() = (v, 0)); FAILED.with(|f| f.borrow_mut().clear()); }
    pub fn consumed() -> usize { VEC.with(|v| v.borrow().1) }
    pub fn failed() -> Vec<u32> { FAILED.with(|f| f.borrow().clone()) }
    pub fn any_u8() -> u8 { next() as u8 }
    pub fn any_u16() -> u16 { next() as u16 }
    pub fn any_usize() -> usize { next() as usize }
    pub fn assume(c: bool) {
        if !c {
            // a check that failed BEFORE this point failed on a valid prefix of the execution (the vector of a
            // counterexample ends at the failing assertion; later draws are padded with zeros)
            let f = failed();
            if !f.is_empty() { std::println!("REPRODUCED checks={:?}", f); }
            std::println!("REPLAY-INVALID assumption violated");
            std::process::exit(3);
        }
    }
    pub fn check(c: bool, id: u32) { if !c { FAILED.with(|f| f.borrow_mut().push(id)); } }
    pub fn reach(_id: u32) {}
    pub fn raise() -> ! { std::panic::panic_any(Injected) }
    pub struct Injected;
    pub unsafe fn havoc(p: *mut u8, n: usize) { let mut i = 0; while i < n { *p.add(i) = next() as u8; i += 1; } }
    pub fn ptr_within_raw(p: *const u8, len: usize, base: *const u8, size: usize) -> bool {
        let (p, b) = (p as usize, base as usize);
        p >= b && p + len <= b + size
    }
    pub fn panics() -> u32 { 0 }
    pub const COUNTS_PANICS: bool = false;
    pub fn catch<F: FnOnce()>(f: F) -> bool {
        std::panic::catch_unwind(std::panic::AssertUnwindSafe(f)).is_err()
    }
    pub const CAN_CATCH: bool = true;
}

#[cfg(not(any(feature = "cbmc", feature = "replay", kani)))]
mod imp {
    // plain `cargo check` of the harness crate: no back end selected
    pub fn any_u8() -> u8 { 0 }
    pub fn any_u16() -> u16 { 0 }
    pub fn any_usize() -> usize { 0 }
    pub fn assume(_c: bool) {}
    pub fn check(_c: bool, _id: u32) {}
    pub fn reach(_id: u32) {}
    pub fn raise() -> ! { panic!() }
    pub unsafe fn havoc(_p: *mut u8, _n: usize) {}
    pub fn ptr_within_raw(_p: *const u8, _len: usize, _base: *const u8, _size: usize) -> bool { true }
    pub fn panics() -> u32 { 0 }
    pub const COUNTS_PANICS: bool = false;
    pub fn catch<F: FnOnce()>(f: F) -> bool { f(); false }
    pub const CAN_CATCH: bool = false;
}

pub use imp::*;

#[inline(always)]
pub fn any_bool() -> bool { any_u8() & 1 == 1 }

/// `r` (covering `size_of::<T>()` bytes) lies inside the bytes of `*c`
#[inline(always)]
pub fn ptr_within<T, C>(r: *const T, c: *const C) -> bool {
    ptr_within_raw(r as *const u8, core::mem::size_of::<T>(), c as *const u8, core::mem::size_of::<C>())
}

/// A value of `T` whose every byte was produced by the opaque `havoc` (solver-chosen, logged, and
/// reproduced bit-for-bit by the native replay).  Callers constrain it with `assume` to a valid
/// representation (for micromap: `len() == 0`, i.e. an empty container whose dead slots hold garbage).
///
/// # Safety
/// `T` must be valid for the byte patterns the caller goes on to `assume`.
#[inline(always)]
pub unsafe fn garbage<T>() -> T {
    let mut slot = core::mem::MaybeUninit::<T>::uninit();
    // engine K: uninitialised memory is already nondeterministic in Kani's model (a byte loop would need its own unwind bound)
    #[cfg(not(kani))]
    havoc(slot.as_mut_ptr() as *mut u8, core::mem::size_of::<T>());
    #[cfg(kani)]
    let _ = &mut slot;
    slot.assume_init()
}
