//! native replay of a solver counterexample: `replay <harness> <v0,v1,...>`
use std::alloc::{GlobalAlloc, Layout, System};
use std::sync::atomic::{AtomicUsize, Ordering};
/// counts heap requests while a harness runs (C06: no operation allocates on its own)
struct Counting;
static ALLOCS: AtomicUsize = AtomicUsize::new(0);
unsafe impl GlobalAlloc for Counting {
    unsafe fn alloc(&self, l: Layout) -> *mut u8 { ALLOCS.fetch_add(1, Ordering::Relaxed); System.alloc(l) }
    unsafe fn dealloc(&self, p: *mut u8, l: Layout) { System.dealloc(p, l) }
    unsafe fn realloc(&self, p: *mut u8, l: Layout, n: usize) -> *mut u8 { ALLOCS.fetch_add(1, Ordering::Relaxed); System.realloc(p, l, n) }
}
#[global_allocator]
static A: Counting = Counting;
fn main() {
    let a: Vec<String> = std::env::args().collect();
    if a.len() < 2 { eprintln!("usage: replay <harness>|--list [vector]"); std::process::exit(2); }
    if a[1] == "--list" { vh::registry(|n, _| println!("{n}")); return; }
    let v: Vec<u64> = a.get(2).map(|s| s.split(',').filter(|s| !s.is_empty()).map(|s| s.parse().unwrap()).collect()).unwrap_or_default();
    let mut found: Option<fn()> = None;
    vh::registry(|n, h| if n == a[1] { found = Some(h) });
    let Some(h) = found else { println!("REPLAY-ERROR unknown harness {}", a[1]); std::process::exit(2) };
    vh::vf::set_vector(v);
    std::panic::set_hook(Box::new(|_| {}));
    let a0 = ALLOCS.load(Ordering::Relaxed);
    let r = std::panic::catch_unwind(h);
    let allocs = ALLOCS.load(Ordering::Relaxed) - a0;
    let f = vh::vf::failed();
    println!("ALLOCS {allocs}");
    if r.is_err() { println!("REPLAY-PANIC uncaught panic escaped the harness (consumed {})", vh::vf::consumed()); }
    if f.is_empty() { println!("REPLAY-OK no check failed (consumed {})", vh::vf::consumed()); }
    else { println!("REPRODUCED checks={:?}", f); }
}
