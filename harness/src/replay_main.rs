//! native replay of a solver counterexample: `replay <harness> <v0,v1,...>`
fn main() {
    let a: Vec<String> = std::env::args().collect();
    if a.len() < 2 { eprintln!("usage: replay <harness>|--list [vector]"); std::process::exit(2); }
    if a[1] == "--list" { vh::registry(|n, _| println!("{n}")); return; }
    let v: Vec<u64> = a.get(2).map(|s| s.split(',').filter(|s| !s.is_empty()).map(|s| s.parse().unwrap()).collect()).unwrap_or_default();
    let mut found: Option<fn()> = None;
    vh::registry(|n, h| if n == a[1] { found = Some(h) });
    let Some(h) = found else { println!("REPLAY-ERROR unknown harness {}", a[1]); std::process::exit(2) };
    vh::vf::set_vector(v);
    std::panic::set_hook(Box::new(|_| {}));
    let r = std::panic::catch_unwind(h);
    let f = vh::vf::failed();
    if r.is_err() { println!("REPLAY-PANIC uncaught panic escaped the harness (consumed {})", vh::vf::consumed()); }
    if f.is_empty() { println!("REPLAY-OK no check failed (consumed {})", vh::vf::consumed()); }
    else { println!("REPRODUCED checks={:?}", f); }
}
